#!/usr/bin/env python3
"""tools/seed.py <prop> <worktree> [<name>] [--checks C01,C06]

Confirms a sub-agent's property-breaking change ourselves and files it under /verif/seeded/<name>/:
  1. the change still passes the existing test-suite in the scratch worktree (same pass set as BASELINE stable_pass),
  2. its demonstration fails WITH the change (worktree) and passes WITHOUT it (/repo),
  3. runs the registered quick checks of the given properties against /repo with the patch applied
     (git -C /repo apply; undone straight afterwards) and records which obligations fail.
"""
import sys, os, json, subprocess, shutil, re, time

ROOT = os.path.dirname(os.path.dirname(os.path.abspath(__file__)))


def sh(cmd, cwd=None, env=None, timeout=3600):
    e = dict(os.environ)
    e.update(env or {})
    p = subprocess.run(cmd, shell=True, cwd=cwd, env=e, capture_output=True, text=True, timeout=timeout)
    return p.returncode, p.stdout + p.stderr


def main():
    prop, wt = sys.argv[1], sys.argv[2]
    name = prop
    checks = [prop]
    args = sys.argv[3:]
    i = 0
    while i < len(args):
        if args[i] == '--checks':
            checks = args[i + 1].split(',')
            i += 2
        else:
            name = args[i]
            i += 1
    out = os.path.join(wt, '_out')
    patch = os.path.join(out, 'patch.diff')
    demo = os.path.join(out, 'demo.py')
    meta = dict(property=prop, name=name, ran=[], at=time.strftime('%Y-%m-%d %H:%M:%S'))
    # 0. worktree state == clean HEAD + patch ?
    rc, o = sh('git -C %s checkout -q -- . ; git -C %s apply --check %s && git -C %s apply %s' % (wt, wt, patch, wt, patch))   # no `git stash`: refs/stash is shared by all worktrees
    meta['patch_applies_on_clean_checkout'] = (rc == 0)
    if rc != 0:
        print('patch does not apply:', o)
        return 2
    # 1. test-suite with the change
    rc, o = sh('PYTHONPATH=%s /venv/bin/python -m pytest -q -p no:cacheprovider msdm/tests 2>&1 | tail -5' % wt, cwd=wt)
    m = re.search(r'(\d+) failed, (\d+) passed', o) or re.search(r'(\d+) passed', o)
    failed = sorted(re.findall(r'FAILED (\S+)', o))
    meta['testsuite_with_change'] = dict(summary=o.strip().split('\n')[-1], failed=failed)
    ok_suite = set(x.split('::')[-1] for x in failed) <= {'test_TableIndex_numpy_array_TableIndex_conversion', 'test_fsc_bpi_tiger_cvxpy'} and '97 passed' in o
    meta['testsuite_unchanged'] = ok_suite
    meta['ran'].append('pytest msdm/tests in the worktree with the patch applied')
    # 2. demo with / without
    rc_with, o_with = sh('PYTHONPATH=%s /venv/bin/python %s' % (wt, demo), cwd=out, timeout=600)
    rc_without, o_without = sh('PYTHONPATH=/repo /venv/bin/python %s' % demo, cwd=out, timeout=600)
    meta['demo_with_change_exit'] = rc_with
    meta['demo_with_change_tail'] = o_with.strip()[-400:]
    meta['demo_without_change_exit'] = rc_without
    meta['ran'].append('demo.py with PYTHONPATH=<worktree> (patched) and with PYTHONPATH=/repo (unpatched)')
    keep = ok_suite and rc_with != 0 and rc_without == 0
    meta['confirmed'] = keep
    # 3. our checks against it
    res = {}
    # the checks are aimed at the patched scratch worktree through VERIF_REPO (/repo itself is never touched)
    for c in checks:
        rcc, oc = sh('./check %s --tier quick --no-sentinels' % c, cwd=ROOT, timeout=3000, env=dict(VERIF_REPO=wt))
        viol = [l for l in oc.split('\n') if l.startswith('VIOLATION')]
        res[c] = dict(exit=rcc, violations=[re.sub(r'replay=\S+ ', '', v)[:260] for v in viol][:12], n_violations=len(viol),
                      other=[l[:200] for l in oc.split('\n') if l.startswith(('UNDECIDED', 'ENGINE', 'VACUITY', 'CHECKER', 'UNBOUND'))][:5])
    meta['checks_against_change'] = res
    meta['caught_by'] = [c for c, r in res.items() if isinstance(r, dict) and r.get('exit') == 1]
    meta['ran'].append('VERIF_REPO=<patched worktree> ./check <prop> --tier quick')
    if os.path.exists(os.path.join(out, 'notes.md')):
        meta['needs_to_manifest'] = open(os.path.join(out, 'notes.md')).read()[:1500]
    d = os.path.join(ROOT, 'seeded', name)
    if keep:
        os.makedirs(d, exist_ok=True)
        shutil.copy(patch, os.path.join(d, 'patch.diff'))
        shutil.copy(demo, os.path.join(d, 'demo.py'))
        if os.path.exists(os.path.join(out, 'notes.md')):
            shutil.copy(os.path.join(out, 'notes.md'), os.path.join(d, 'notes.md'))
        json.dump(meta, open(os.path.join(d, 'meta.json'), 'w'), indent=1)
    print(json.dumps({k: meta[k] for k in ('property', 'name', 'testsuite_unchanged', 'demo_with_change_exit', 'demo_without_change_exit', 'confirmed', 'caught_by')}, indent=1))
    for c, r in res.items():
        if isinstance(r, dict):
            print(c, 'exit', r['exit'], 'violations', r['n_violations'])
            for v_ in r['violations'][:4]:
                print('   ', v_)
            for v_ in r['other']:
                print('   ', v_)
        else:
            print(c, r)
    return 0


if __name__ == '__main__':
    sys.exit(main())
