#!/usr/bin/env python3
"""Runs every randomised component of msdm once with a fixed seed on problems whose states / actions / option names are STRINGS and prints a canonical JSON
digest of the results.  Called by props/C13.py in separate processes with different PYTHONHASHSEED and different prior states of the global generators."""
import sys, json, random, warnings, math
warnings.simplefilter('ignore')
import numpy as np, torch
ambient = int(sys.argv[1]) if len(sys.argv) > 1 else 0
only = sys.argv[2] if len(sys.argv) > 2 else ''
random.seed(ambient); np.random.seed(ambient); torch.manual_seed(ambient)
for _ in range(ambient):
    random.random(); np.random.rand(); torch.rand(1)

from msdm.core.mdp import QuickTabularMDP
from msdm.core.distributions import DictDistribution
from msdm.core.distributions.distributions import ImplicitDistribution
from msdm.core.mdp.policy import FunctionalPolicy
from msdm.algorithms import LAOStar, LRTDP, QLearning, SARSA, ExpectedSARSA, DoubleQLearning
from msdm.algorithms.search import AStarSearch, BreadthFirstSearch
from msdm.algorithms.rmax import RMAX
from msdm.core.semimdp.semimdp import SemiMarkovDecisionProcess
from msdm.core.semimdp.option import Option
from msdm.domains.tiger import Tiger

S = ['s0', 's1', 's2', 'goal']
A = ('left', 'right')
T = {('s0', 'left'): {'s0': .5, 's1': .5}, ('s0', 'right'): {'s2': 1.}, ('s1', 'left'): {'goal': .5, 's0': .5}, ('s1', 'right'): {'s2': .5, 'goal': .5},
     ('s2', 'left'): {'goal': 1.}, ('s2', 'right'): {'s2': .25, 'goal': .75}, ('goal', 'left'): {'goal': 1.}, ('goal', 'right'): {'goal': 1.}}
R = lambda s, a, ns: {'s0': -1., 's1': -2., 's2': -1.5, 'goal': 0.}[s] + (1. if ns == 'goal' and s != 'goal' else 0.)


def mdp(g=.95, p0=None):
    return QuickTabularMDP(next_state_dist=lambda s, a: DictDistribution(T[(s, a)]), reward=R, actions=A, initial_state_dist=DictDistribution(p0 or {'s0': .5, 's1': .5}),
                           is_absorbing=lambda s: s == 'goal', discount_rate=g)


def canon(x):
    if isinstance(x, dict):
        return {str(k): canon(v) for k, v in sorted(x.items(), key=lambda kv: str(kv[0]))}
    if isinstance(x, (list, tuple)):
        return [canon(v) for v in x]
    if isinstance(x, (set, frozenset)):
        return sorted(str(v) for v in x)
    if isinstance(x, (float, np.floating)):
        return None if math.isnan(x) else round(float(x), 10)
    if isinstance(x, (np.integer,)):
        return int(x)
    if hasattr(x, 'tolist'):
        return canon(x.tolist())
    return x if isinstance(x, (int, str, bool, type(None))) else str(x)


out = {}


def comp(name):
    def deco(f):
        if only and only != name:
            return f
        st = (random.getstate(), np.random.get_state()[1].tolist(), torch.random.get_rng_state().tolist())
        out[name] = canon(f())
        st2 = (random.getstate(), np.random.get_state()[1].tolist(), torch.random.get_rng_state().tolist())
        out[name + '::ambient-untouched'] = (st == st2)
        return f
    return deco


@comp('LAOStar')
def _():
    res = {}
    for sd in (0, 3):      # 0 is a fixed seed like any other
        r = LAOStar(heuristic=lambda s: 0., seed=sd, randomize_action_order=True).plan_on(mdp())
        res[sd] = dict(v=r.state_value_map, init=r.initial_value, pol={s: dict(r.policy.action_dist(s).items()) for s in S})
    return res


@comp('LRTDP')
def _():
    res = {}
    for sd in (0, 3):
        r = LRTDP(heuristic=lambda s: 0., seed=sd, randomize_action_order=True, iterations=3).plan_on(mdp())
        res[sd] = dict(V=dict(r.V), init=r.initial_value)
    return res


@comp('LRTDP-corridor')
def _():
    # a longer stochastic, cyclic problem with STRING states and three actions: labelling passes (_check_solved) fail with several states closed, so the
    # order of the corrective backups matters -- it must come from the search, not from hashing
    names = ['room-%s' % chr(ord('a') + i) for i in range(9)]

    def nsd(s, a):
        i = names.index(s)
        fwd, bwd = names[min(i + 1, 8)], names[max(i - 1, 0)]
        if a == 'forward':
            return DictDistribution.from_pairs([(fwd, .6), (s, .25), (bwd, .15)])
        if a == 'back':
            return DictDistribution.from_pairs([(bwd, .8), (s, .2)])
        return DictDistribution.from_pairs([(names[min(i + 3, 8)], .3), (names[0], .3), (s, .4)])
    m = QuickTabularMDP(next_state_dist=nsd, reward=lambda s, a, ns: -1.0 if a != 'jump' else -1.5, actions=('forward', 'back', 'jump'),
                        initial_state_dist=DictDistribution({names[0]: .5, names[2]: .5}), is_absorbing=lambda s: s == names[-1], discount_rate=.95)
    res = {}
    for sd, its, sh in ((7, None, False), (0, 12, True), (3, 40, True)):
        kw = dict(iterations=its) if its else {}
        r = LRTDP(heuristic=lambda s: 0., bellman_error_margin=1e-2, seed=sd, randomize_action_order=sh, **kw).plan_on(m)
        res['%s/%s' % (sd, its)] = dict(V=dict(r.V), init=r.initial_value, solved=sorted(s for s in names if r.solved.get(s)))
    r = LAOStar(heuristic=lambda s: 0., seed=5, randomize_action_order=True).plan_on(m)
    res['lao'] = dict(v=r.state_value_map, init=r.initial_value)
    return res


@comp('AStar')
def _():
    det = QuickTabularMDP(next_state=lambda s, a: {'left': {'s0': 's1', 's1': 'goal', 's2': 'goal', 'goal': 'goal'}, 'right': {'s0': 's2', 's1': 's2', 's2': 's2', 'goal': 'goal'}}[a][s],
                          reward=-1, actions=A, initial_state='s0', is_absorbing=lambda s: s == 'goal')
    res = {}
    for sd in (0, 5):
        r = AStarSearch(seed=sd, randomize_action_order=True, tie_breaking_strategy='random').plan_on(det)
        b = BreadthFirstSearch(seed=sd, randomize_action_order=True).plan_on(det)
        res[sd] = dict(path=r.path, value=r.path_value, visited=r.visited, bfs=b.path)
    return res


@comp('TD')
def _():
    res = {}
    for cls in (QLearning, SARSA, ExpectedSARSA, DoubleQLearning):
        for sd in (0, 7):
            r = cls(episodes=6, seed=sd, rand_choose=.3, softmax_temp=.5).train_on(mdp())
            res['%s/%d' % (cls.__name__, sd)] = {s: dict(av) for s, av in r.q_values.items()}
    return res


@comp('RMAX')
def _():
    res = {}
    for sd in (0, 7):
        r = RMAX(episodes=4, rmax=0., num_transition_samples=2, seed=sd).train_on(mdp(g=.9))
        res[sd] = {s: dict(av) for s, av in r.q_values.items()}
    return res


@comp('rollouts')
def _():
    pol = FunctionalPolicy(lambda s: DictDistribution({'left': .5, 'right': .5}))
    r1 = pol.run_on(mdp(), rng=random.Random(11), max_steps=20)
    ev = pol.evaluate_on(mdp(), n_simulations=5, max_steps=20, rng=random.Random(11))
    # the same soft policy as a TABLE (rows are table-backed distributions), and a planner's tabular policy with tied actions
    from msdm.core.mdp.tabularpolicy import TabularPolicy
    from msdm.algorithms import ValueIteration
    m = mdp()
    tpol = TabularPolicy.from_state_action_lists(state_list=tuple(S), action_list=A, data=[[.25, .75] for _ in S])
    r2 = tpol.run_on(m, rng=random.Random(11), max_steps=20)
    tie = QuickTabularMDP(next_state_dist=lambda s, a: DictDistribution({'goal': .5, 's0': .5}) if s == 's0' else DictDistribution({'goal': 1.}), reward=-1., actions=A,
                          initial_state='s0', is_absorbing=lambda s: s == 'goal', discount_rate=.9)
    vpol = ValueIteration().plan_on(tie).policy
    r3 = vpol.run_on(tie, rng=random.Random(0), max_steps=15)
    return dict(states=r1.state, actions=r1.action, init=ev.initial_value, sv=dict(ev.state_value.items()),
                tab_states=r2.state, tab_actions=r2.action, tied_actions=r3.action)


@comp('pomdp-rollout')
def _():
    from msdm.algorithms.qmdp import QMDP
    from msdm.algorithms import ValueIteration
    t = Tiger(coherence=.8, discount_rate=.9)
    p = QMDP(mdp_solver=ValueIteration()).plan_on(t).policy
    tr = p.run_on(t, rng=random.Random(13), max_steps=6)
    return [[st.state, st.action, st.observation] for st in tr]


@comp('semimdp')
def _():
    class Go(Option):
        def __init__(self, name, term):
            self.name = name; self.term = term; self.max_steps = 50
            self.policy = FunctionalPolicy(lambda s: DictDistribution({'left': .5, 'right': .5}))
        def is_initial(self, s): return True
        def is_terminal(self, s): return s in self.term
        def __hash__(self): return hash(self.name)
    res = {}
    for sd in (0, 17):
        sm = SemiMarkovDecisionProcess(mdp=mdp(), options=[Go('to-goal', {'goal'}), Go('to-s2', {'s2', 'goal'})], n_option_simulations=6, seed=sd)
        o = sm.options[0]
        d = sm.next_state_transit_time_reward_dist('s0', o)
        res[sd] = {repr(k): v for k, v in d.items()}
    # the same seeded problem built TWICE in one process from sub-goal options that were given no name: identical option models both times
    from msdm.core.semimdp.option import PlanToSubgoalOption
    from msdm.algorithms import ValueIteration

    def build():
        m = mdp()
        opts = [PlanToSubgoalOption(mdp=m, initial_states=['s0', 's1'], subgoals=['s2', 'goal'], planner=ValueIteration(), max_steps=200),
                PlanToSubgoalOption(mdp=m, initial_states=['s0', 's1', 's2'], subgoals=['goal'], planner=ValueIteration(), max_steps=200)]
        sm2 = SemiMarkovDecisionProcess(mdp=m, options=opts, n_option_simulations=5, seed=20231)
        return [{repr(k): v for k, v in sm2.next_state_transit_time_reward_dist(s_, o_).items()} for o_ in opts for s_ in ('s0', 's1')]
    first, second = build(), build()
    res['unnamed'] = first
    res['holds:a-seeded-problem-with-unnamed-options-gives-the-same-option-models-when-built-again'] = (first == second)
    return res


@comp('implicit')
def _():
    res = {}
    f = lambda rng: rng.choice(['x', 'y', 'z']) + str(rng.randint(0, 3))
    for sd in (0, 19):
        d = ImplicitDistribution(f, n_samples=12, _seed=sd)
        res[sd] = dict(items=dict(d.items()), exp=d.marginalize(lambda e: e[0]).expectation(lambda e: 1. if e == 'x' else 0.))
        # sequences on ONE seeded parent: every derived distribution owns a generator seeded like the parent's, and obeys an explicit generator
        p = ImplicitDistribution(f, n_samples=12, _seed=sd)
        m1, m2 = p.marginalize(lambda e: e[0]), p.marginalize(lambda e: e[0])
        a, b = dict(m1.items()), dict(m2.items())
        p.sample(); p.sample()
        c = dict(p.marginalize(lambda e: e[0]).items())
        fresh = dict(ImplicitDistribution(f, n_samples=12, _seed=sd).marginalize(lambda e: e[0]).items())
        res[sd]['holds:two-marginals-of-one-seeded-parent-agree-and-equal-a-fresh-one'] = (a == b == fresh)
        res[sd]['holds:sampling-the-parent-first-does-not-change-its-marginal'] = (c == fresh)
        m3 = ImplicitDistribution(f, n_samples=12, _seed=sd).marginalize(lambda e: e[0])
        res[sd]['holds:a-derived-distribution-draws-from-the-generator-it-is-given'] = (
            [m3.sample(rng=random.Random(5)) for _ in range(6)] == [f(random.Random(5))[0] for _ in range(6)])
        c1 = ImplicitDistribution(f, n_samples=40, _seed=sd).condition(lambda e: e[0] != 'x')
        res[sd]['holds:a-conditioned-distribution-draws-from-the-generator-it-is-given'] = (
            [c1.sample(rng=random.Random(9)) for _ in range(3)] == [c1.sample(rng=random.Random(9)) for _ in range(3)])
    return res


@comp('FSC-learners')
def _():
    from msdm.algorithms.fscboundedpolicyiteration import FSCBoundedPolicyIteration
    from msdm.algorithms.fscgradientascent import FSCGradientAscent
    t = Tiger(coherence=.8, discount_rate=.9)
    out_ = {}
    for seed in (0, 4):
        b = FSCBoundedPolicyIteration(controller_state_count=2, iterations=2, seed=seed).train_on(t)
        g = FSCGradientAscent(controller_state_count=2, iterations=3, seed=seed).train_on(t)
        out_['bpi%d' % seed] = dict(value=float(b.value), act=np.round(np.asarray(b.policy.action_strategy), 9))
        out_['ga%d' % seed] = dict(value=float(g.value.expected_value), act=np.round(g.policy.action_strategy.detach().numpy(), 9))
    return out_


print(json.dumps(out, sort_keys=True, default=str))
