#!/bin/bash
# tools/seedregress.sh [names...] : re-aim the CURRENT quick checks at every stored seeded change (seeded/<name>/patch.diff) on scratch worktrees of
# /repo's HEAD; every one must still be reported (exit 1 by a check listed in its meta.json caught_by).  Patches that no longer apply are listed.
cd "$(dirname "$0")/.."
names="$@"; [ -z "$names" ] && names=$(ls seeded | grep "^C" | awk -F- "{print (\$2==\"\"?\"r1\":\$2), \$0}" | sort | cut -d" " -f2)
par=${SEEDREG_PAR:-3}
run_one() {
  name=$1; wt=/tmp/seedreg.$$.$name
  git -C /repo worktree add -q --detach $wt HEAD || { echo "$name worktree-failed"; return; }
  if ! git -C $wt apply "$PWD/seeded/$name/patch.diff" 2>/dev/null && ! git -C $wt apply --3way "$PWD/seeded/$name/patch.diff" 2>/dev/null; then echo "$name patch-no-longer-applies"; git -C /repo worktree remove --force $wt; return; fi
  checks=$(python3 -c "import json;print(' '.join(json.load(open('seeded/$name/meta.json')).get('caught_by') or ['${name:0:3}']))")
  res=""
  for c in $checks; do
    out=$(VERIF_REPO=$wt VERIF_EVIDENCE_DIR=/tmp/seedreg.$$.ev ./check $c --tier quick --no-sentinels 2>&1); rc=$?
    res="$res $c:exit=$rc:$(echo "$out" | grep -c '^VIOLATION')v"
    [ $rc -eq 1 ] && break
  done
  echo "$name$res"
  git -C /repo worktree remove --force $wt
}
export -f run_one
i=0
for n in $names; do
  run_one $n &
  i=$((i+1)); [ $((i % par)) -eq 0 ] && wait
done
wait
