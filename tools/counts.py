#!/usr/bin/env python3
"""prints a markdown table of the counts in evidence/*.json (what the last run of each check actually covered)"""
import json, glob, os
ROOT = os.path.dirname(os.path.dirname(os.path.abspath(__file__)))
print('| id | tier | U discharged/obligations | B | R (clause groups / cases) | tasks | paths | solver s | wall s | sentinels killed | functions under contract |')
print('|---|---|---|---|---|---|---|---|---|---|---|')
for f in sorted(glob.glob(os.path.join(ROOT, 'evidence', 'C*.json'))):
    d = json.load(open(f)); c = d['coverage']
    sent = c.get('sentinels', [])
    print('| %s | %s | %d/%d | %d/%d | %d/%d over %d | %d | %d | %.0f | %.0f | %d/%d | %d |' % (
        d['property_id'], d['tier'], c['discharged'], c['obligations'], c['bounded_discharged'], c['bounded_obligations'], c['runtime_discharged'], c['runtime_obligations'],
        c.get('runtime_cases', 0), c['tasks'], c['paths'], c['solver_s'], d['wall_s'], sum(1 for s in sent if s['status'] == 'killed'), len(sent), len(c.get('functions_under_contract', []))))
