#!/bin/sh
# tools/sweep.sh "<seeds>" [tier] : runs every registered check for each seed, prints one line per (check, seed) with exit code and alarm lines
cd "$(dirname "$0")/.."
for sd in $1; do
  for c in C01 C02 C03 C04 C05 C06 C07 C08 C09 C10 C11 C12 C13 C14 C15 C16 C17 C18 C19 C20; do
    out=$(VERIF_SEED=$sd ./check $c --tier ${2:-quick} --no-sentinels 2>&1); rc=$?
    echo "$c seed=$sd exit=$rc $(echo "$out" | grep -c '^VIOLATION') violations; $(echo "$out" | grep '^C[0-9][0-9] tier' | cut -c1-120)"
    echo "$out" | grep '^VIOLATION\|^UNDECIDED\|^ENGINE\|^VACUITY\|^CHECKER' | cut -c1-260 | head -5
  done
done
