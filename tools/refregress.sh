#!/bin/bash
# tools/refregress.sh [ids...] : re-aim the CURRENT quick checks at every stored behaviour-preserving refactoring
# (refactors/<id>/patch.diff) on a scratch worktree of /repo's HEAD; anything but exit 0 is a false alarm.
# Patches that no longer apply (the code they touch was repaired by a later fix: commit) are reported and skipped.
cd "$(dirname "$0")/.."
ids="$@"; [ -z "$ids" ] && ids=$(ls refactors | grep '^C')
wt=/tmp/refregress.$$
git -C /repo worktree add -q --detach $wt HEAD || exit 3
trap 'git -C /repo worktree remove --force '$wt EXIT
for id in $ids; do
  git -C $wt checkout -q -- . ; git -C $wt clean -fdq
  if ! git -C $wt apply "$PWD/refactors/$id/patch.diff" 2>/dev/null && ! git -C $wt apply --3way "$PWD/refactors/$id/patch.diff" 2>/dev/null; then echo "$id patch-no-longer-applies"; continue; fi
  out=$(VERIF_REPO=$wt ./check ${id:0:3} --tier quick --no-sentinels 2>&1); rc=$?
  echo "$id exit=$rc $(python3 -c "import json;c=json.load(open('evidence/${id:0:3}.json'))['coverage'];print(len(c.get('unbound_contracts',[])),'unbound',len(c.get('degraded_tasks',[])),'degraded')") $(echo "$out" | grep -c '^FRAME-NOTE') frame-notes $(echo "$out" | grep '^C.. tier' | cut -c1-120)"
  [ $rc -ne 0 ] && echo "$out" | grep '^VIOLATION\|^UNDECIDED\|^ENGINE\|^CHECKER\|^VACUITY' | cut -c1-260 | head -8
done
