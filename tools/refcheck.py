#!/usr/bin/env python3
"""tools/refcheck.py <prop> <worktree> [--checks C01,C06] [--skip-suite] [--name C01-p2]

False-alarm probe: a sub-agent made a BEHAVIOUR-PRESERVING refactoring of the code a property is anchored in (scratch worktree, _out/patch.diff, demo.py, notes.md).
  1. the refactoring passes the existing test-suite exactly as the base tree does, and its demonstration passes with and without it,
  2. the registered quick check(s) are aimed at the refactored worktree (VERIF_REPO): anything but exit 0 is an alarm on code where the property holds.
Filed under /verif/refactors/<prop>/ with the verdict; /repo is never touched."""
import sys, os, json, subprocess, shutil, re, time

ROOT = os.path.dirname(os.path.dirname(os.path.abspath(__file__)))


def sh(cmd, cwd=None, env=None, timeout=3600):
    e = dict(os.environ)
    e.update(env or {})
    p = subprocess.run(cmd, shell=True, cwd=cwd, env=e, capture_output=True, text=True, timeout=timeout)
    return p.returncode, p.stdout + p.stderr


def main():
    prop, wt = sys.argv[1], sys.argv[2]
    checks, skip_suite, name = [prop], False, prop
    args = sys.argv[3:]
    i = 0
    while i < len(args):
        if args[i] == '--checks':
            checks = args[i + 1].split(',')
            i += 2
        elif args[i] == '--name':
            name = args[i + 1]
            i += 2
        elif args[i] == '--skip-suite':
            skip_suite = True
            i += 1
        else:
            i += 1
    out = os.path.join(wt, '_out')
    patch, demo = os.path.join(out, 'patch.diff'), os.path.join(out, 'demo.py')
    meta = dict(property=prop, name=name, at=time.strftime('%Y-%m-%d %H:%M:%S'), kind='behaviour-preserving refactoring' if name == prop else 'behaviour-preserving performance / robustness change')
    rc, o = sh('git -C %s checkout -q -- . ; git -C %s apply --check %s && git -C %s apply %s' % (wt, wt, patch, wt, patch))
    meta['patch_applies_on_clean_checkout'] = (rc == 0)
    if rc != 0:
        print('patch does not apply:', o)
        return 2
    rc, o = sh('git -C %s diff --stat -- msdm | tail -1' % wt)
    meta['diffstat'] = o.strip()
    if not skip_suite:
        rc, o = sh('PYTHONPATH=%s /venv/bin/python -m pytest -q -p no:cacheprovider msdm/tests 2>&1 | tail -5' % wt, cwd=wt)
        failed = sorted(re.findall(r'FAILED (\S+)', o))
        meta['testsuite_with_change'] = dict(summary=o.strip().split('\n')[-1], failed=failed)
        meta['testsuite_unchanged'] = set(x.split('::')[-1] for x in failed) <= {'test_TableIndex_numpy_array_TableIndex_conversion', 'test_fsc_bpi_tiger_cvxpy'} and '97 passed' in o
    rc_with, o_with = sh('PYTHONPATH=%s /venv/bin/python %s' % (wt, demo), cwd=out, timeout=900)
    rc_without, _ = sh('PYTHONPATH=/repo /venv/bin/python %s' % demo, cwd=out, timeout=900)
    meta['demo_with_change_exit'], meta['demo_without_change_exit'] = rc_with, rc_without
    meta['demo_with_change_tail'] = o_with.strip()[-300:]
    meta['behaviour_preserving_as_far_as_checked'] = bool(meta.get('testsuite_unchanged', True) and rc_with == 0 and rc_without == 0)
    res = {}
    for c in checks:
        rcc, oc = sh('./check %s --tier quick --no-sentinels' % c, cwd=ROOT, timeout=3000, env=dict(VERIF_REPO=wt))
        lines = oc.split('\n')
        res[c] = dict(exit=rcc, summary=[l[:200] for l in lines if re.match(r'^C\d\d tier', l)][:1],
                      alarms=[re.sub(r'replay=\S+ ', '', l)[:300] for l in lines if l.startswith(('VIOLATION', 'UNDECIDED', 'ENGINE', 'VACUITY', 'CHECKER'))][:12],
                      unbound=[l[:300] for l in lines if l.startswith('UNBOUND')][:12])
    meta['checks_against_refactoring'] = res
    meta['false_alarm'] = [c for c, r in res.items() if r['exit'] != 0]
    d = os.path.join(ROOT, 'refactors', name)
    os.makedirs(d, exist_ok=True)
    shutil.copy(patch, os.path.join(d, 'patch.diff'))
    if os.path.exists(os.path.join(out, 'notes.md')):
        shutil.copy(os.path.join(out, 'notes.md'), os.path.join(d, 'notes.md'))
    if os.path.exists(demo):
        shutil.copy(demo, os.path.join(d, 'demo.py'))
    json.dump(meta, open(os.path.join(d, 'meta.json'), 'w'), indent=1)
    print(json.dumps({k: meta.get(k) for k in ('property', 'diffstat', 'testsuite_unchanged', 'demo_with_change_exit', 'demo_without_change_exit', 'false_alarm')}, indent=1))
    for c, r in res.items():
        print(c, 'exit', r['exit'], r['summary'])
        for a in r['alarms'][:6] + r['unbound'][:4]:
            print('   ', a)
    return 0


if __name__ == '__main__':
    sys.exit(main())
