"""symrun.core -- symbolic leaves, path forking and obligations.

The REAL function objects of /repo are executed natively by CPython.  Only the *leaves* of their inputs
are symbolic: SymReal / SymBool wrap z3 terms and overload every operator.  A path splits in exactly one
place, SymBool.__bool__ (CPython's PyObject_IsTrue), by decision-prefix re-execution.  Each path yields
verification conditions  pc => clause  that are discharged at once by z3 (cvc5 for z3's unknowns).

Modes
  symbolic : leaves are z3 terms (proof / counterexample search)
  concrete : leaves are Python floats/ints taken from a model (replay of a counterexample on the real
             code with the real numpy; also the run-time tier)
The same harness text (inputs + call of the real function + contract clauses) runs in both modes.
"""
import sys as _sys
if hasattr(_sys, 'set_int_max_str_digits'):
    _sys.set_int_max_str_digits(0)      # counter-models and exact rational arithmetic produce integers of many thousand digits

import z3, math, fractions, time, operator, traceback, os, subprocess, tempfile
import numpy as _np

Fraction = fractions.Fraction


class Unsupported(Exception):
    """The engine cannot execute this construct symbolically (never mapped to a violation)."""


class Unbound(Unsupported):
    """a loop contract (invariant / havoc / element hook / iterable recognition) cannot be bound to the CURRENT source text of the function
    (renamed loop-carried local, rewritten loop header): the contract, not the code, is out of date.  Undecided, never a violation."""



class PathInfeasible(BaseException):
    pass


class PathLimit(BaseException):
    pass


class PathEnd(BaseException):
    """A path that ends at a cut loop's back edge (normal completion)."""


# ---------------------------------------------------------------------------------------------------
# run state
# ---------------------------------------------------------------------------------------------------
class Run:
    def __init__(self, prefix, mode='symbolic', model=None, fork_timeout_ms=2000, vc_timeout_ms=10000):
        self.mode = mode
        self.prefix = list(prefix)
        self.pos = 0
        self.trace = []
        self.pending = []
        self.solver = z3.Solver() if mode == 'symbolic' else None
        if self.solver is not None:
            self.solver.set('timeout', fork_timeout_ms)
        self.fork_timeout_ms = fork_timeout_ms
        self.vc_timeout_ms = vc_timeout_ms
        self.counter = 0
        self.inputs = {}          # name -> z3 const (symbolic) or python value (concrete)
        self.model = model or {}  # concrete mode: name -> value
        self.checks = []          # dicts: name, status, model, detail
        self.events = []          # free-form events (entropy sources, facade calls ...)
        self.solver_s = 0.0
        self.n_queries = 0
        self.max_decisions = 4000
        self.rng = None

    def fresh(self, base):
        self.counter += 1
        return '%s!%d' % (base, self.counter)


_cur = None


def cur():
    if _cur is None:
        raise RuntimeError('no symbolic run active')
    return _cur


def active():
    return _cur is not None


def symbolic():
    return _cur is not None and _cur.mode == 'symbolic'


# ---------------------------------------------------------------------------------------------------
# helpers
# ---------------------------------------------------------------------------------------------------
def _rat(x):
    """python number -> z3 numeral (exact decimal reading of floats: 0.9 is 9/10)."""
    if isinstance(x, bool):
        return z3.RealVal(int(x))
    if isinstance(x, int):
        return z3.RealVal(x)
    if isinstance(x, Fraction):
        return z3.RealVal(str(x))
    if isinstance(x, (float, _np.floating)):
        x = float(x)
        if x == int(x) and abs(x) < 1e15:
            return z3.RealVal(int(x))
        # floats are mathematical reals: a float denotes the simplest rational that rounds to it (1/3, 0.1, 1e-05 ...)
        fr = Fraction(x).limit_denominator(10 ** 6)
        if float(fr) == x:
            return z3.RealVal(str(fr))
        return z3.RealVal(str(Fraction(repr(x))))
    if isinstance(x, _np.integer):
        return z3.RealVal(int(x))
    raise TypeError(x)


def is_number(x):
    return isinstance(x, (int, float, Fraction, _np.floating, _np.integer)) and not isinstance(x, (bool, _np.bool_)) \
        or isinstance(x, (bool, _np.bool_))


FIN, PINF, NINF, NAN = 'f', '+i', '-i', 'nan'


def _simp(e):
    return z3.simplify(e)


def mk_bool(e):
    """z3 Bool -> python bool when syntactically decided, else SymBool."""
    e = _simp(e)
    if z3.is_true(e):
        return True
    if z3.is_false(e):
        return False
    return SymBool(e)


def b2z(x):
    if isinstance(x, SymBool):
        return x.e
    if isinstance(x, (bool, _np.bool_)):
        return z3.BoolVal(bool(x))
    if isinstance(x, z3.BoolRef):
        return x
    if isinstance(x, Clause):
        return x.exact
    if isinstance(x, SymReal):
        return (x != 0).e if isinstance(x != 0, SymBool) else z3.BoolVal(bool(x != 0))
    if isinstance(x, (int, float)):
        return z3.BoolVal(bool(x))
    raise TypeError('not a boolean: %r' % (x,))


class SymBool:
    __slots__ = ('e',)
    __array_ufunc__ = None
    __array_priority__ = 1000

    def __init__(self, e):
        self.e = e

    def __bool__(self):
        return _decide(self.e)

    def __invert__(self):
        return mk_bool(z3.Not(self.e))

    def _bin(self, other, f):
        try:
            o = b2z(other)
        except TypeError:
            return NotImplemented
        return mk_bool(f(self.e, o))

    def __and__(self, o):
        if isinstance(o, _np.ndarray):
            return _vec(operator.and_, self, o)
        return self._bin(o, z3.And)
    __rand__ = __and__

    def __or__(self, o):
        if isinstance(o, _np.ndarray):
            return _vec(operator.or_, self, o)
        return self._bin(o, z3.Or)
    __ror__ = __or__

    def __xor__(self, o):
        return self._bin(o, z3.Xor)
    __rxor__ = __xor__

    def __eq__(self, o):
        if isinstance(o, (SymBool, bool, _np.bool_)):
            return mk_bool(self.e == b2z(o))
        if isinstance(o, (int, float, SymReal)):
            return as_real(self) == o
        return False

    def __ne__(self, o):
        r = self.__eq__(o)
        return (not r) if isinstance(r, bool) else ~r

    def __hash__(self):
        return 0

    # arithmetic on booleans (True == 1), e.g. mask / mask.sum()
    def __add__(self, o):
        return as_real(self) + o
    __radd__ = __add__

    def __mul__(self, o):
        return as_real(self) * o
    __rmul__ = __mul__

    def __sub__(self, o):
        return as_real(self) - o

    def __rsub__(self, o):
        return o - as_real(self)

    def __truediv__(self, o):
        return as_real(self) / o

    def __rtruediv__(self, o):
        return o / as_real(self)

    def __repr__(self):
        return 'SymBool(%s)' % self.e


def _decide(e):
    """The single forking point."""
    r = cur()
    e = _simp(e)
    if z3.is_true(e):
        return True
    if z3.is_false(e):
        return False
    if r.mode != 'symbolic':
        raise RuntimeError('symbolic boolean in concrete mode')
    if len(r.trace) >= r.max_decisions:
        raise PathLimit('too many decisions on one path')
    if r.pos < len(r.prefix):
        d = r.prefix[r.pos]
        r.pos += 1
        r.trace.append(d)
        r.solver.add(e if d else z3.Not(e))
        return d
    t0 = time.time()
    ct = r.solver.check(e) != z3.unsat
    cf = r.solver.check(z3.Not(e)) != z3.unsat
    r.solver_s += time.time() - t0
    r.n_queries += 2
    if ct and cf:
        r.pending.append(r.trace + [False])
        d = True
    elif ct:
        d = True
    elif cf:
        d = False
    else:
        raise PathInfeasible()
    r.pos += 1
    r.trace.append(d)
    r.solver.add(e if d else z3.Not(e))
    return d


def _vec(op, a, arr, swap=False):
    f = _np.frompyfunc((lambda x: op(x, a)) if swap else (lambda x: op(a, x)), 1, 1)
    out = f(arr)
    return out


class SymReal:
    """A real (or integer) number: z3 arithmetic term plus a concrete infinity/NaN tag."""
    __slots__ = ('e', 'k')
    __array_ufunc__ = None
    __array_priority__ = 1000

    def __init__(self, e, k=FIN):
        self.e = e
        self.k = k

    # -- construction --------------------------------------------------------------------------
    @staticmethod
    def of(x):
        if isinstance(x, SymReal):
            return x
        if isinstance(x, SymBool):
            return SymReal(z3.If(x.e, z3.RealVal(1), z3.RealVal(0)))
        if isinstance(x, (bool, _np.bool_)):
            return SymReal(z3.RealVal(int(x)))
        if isinstance(x, (float, _np.floating)):
            x = float(x)
            if math.isnan(x):
                return SymReal(z3.RealVal(0), NAN)
            if math.isinf(x):
                return SymReal(z3.RealVal(0), PINF if x > 0 else NINF)
            return SymReal(_rat(x))
        if isinstance(x, (int, _np.integer, Fraction)):
            return SymReal(_rat(x))
        if isinstance(x, z3.ArithRef):
            return SymReal(x)
        return None

    def _co(self, o):
        r = SymReal.of(o)
        return r

    # -- arithmetic ----------------------------------------------------------------------------
    def __add__(self, o):
        if isinstance(o, _np.ndarray):
            return _vec(operator.add, self, o)
        o = self._co(o)
        if o is None:
            return NotImplemented
        if self.k == FIN and o.k == FIN:
            return SymReal(_simp(self.e + o.e))
        if NAN in (self.k, o.k) or {self.k, o.k} == {PINF, NINF}:
            return SymReal(z3.RealVal(0), NAN)
        return SymReal(z3.RealVal(0), self.k if self.k != FIN else o.k)
    __radd__ = __add__

    def __neg__(self):
        if self.k == FIN:
            return SymReal(_simp(-self.e))
        return SymReal(z3.RealVal(0), {PINF: NINF, NINF: PINF, NAN: NAN}[self.k])

    def __pos__(self):
        return self

    def __sub__(self, o):
        if isinstance(o, _np.ndarray):
            return _vec(operator.sub, self, o)
        o = self._co(o)
        if o is None:
            return NotImplemented
        return self + (-o)

    def __rsub__(self, o):
        if isinstance(o, _np.ndarray):
            return _vec(operator.sub, self, o, swap=True)
        o = self._co(o)
        if o is None:
            return NotImplemented
        return o + (-self)

    def __mul__(self, o):
        if isinstance(o, _np.ndarray):
            return _vec(operator.mul, self, o)
        o = self._co(o)
        if o is None:
            return NotImplemented
        if self.k == FIN and o.k == FIN:
            return SymReal(_simp(self.e * o.e))
        if NAN in (self.k, o.k):
            return SymReal(z3.RealVal(0), NAN)
        # at least one infinity: the sign of the finite factor decides (fork when symbolic)
        def sgn(x):
            if x.k == PINF:
                return 1
            if x.k == NINF:
                return -1
            if x > 0:
                return 1
            if x < 0:
                return -1
            return 0
        s = sgn(self) * sgn(o)
        if s == 0:
            return SymReal(z3.RealVal(0), NAN)
        return SymReal(z3.RealVal(0), PINF if s > 0 else NINF)
    __rmul__ = __mul__

    def __truediv__(self, o):
        if isinstance(o, _np.ndarray):
            return _vec(operator.truediv, self, o)
        o = self._co(o)
        if o is None:
            return NotImplemented
        if o.k in (PINF, NINF):
            if self.k == FIN:
                return SymReal(z3.RealVal(0))
            return SymReal(z3.RealVal(0), NAN)
        if o.k == NAN or self.k == NAN:
            return SymReal(z3.RealVal(0), NAN)
        if o == 0:   # forks when symbolic
            note('divzero')
            raise ZeroDivisionError('symbolic division by zero')
        if self.k == FIN:
            return SymReal(_simp(self.e / o.e))
        s = 1 if (o > 0) else -1
        if self.k == NINF:
            s = -s
        return SymReal(z3.RealVal(0), PINF if s > 0 else NINF)

    def __rtruediv__(self, o):
        if isinstance(o, _np.ndarray):
            return _vec(operator.truediv, self, o, swap=True)
        o = self._co(o)
        if o is None:
            return NotImplemented
        return o.__truediv__(self)

    def __pow__(self, n):
        if isinstance(n, SymReal):
            v = concrete_value(n)
            if v is None:
                raise Unsupported('symbolic exponent')
            n = v
        if isinstance(n, (float, _np.floating)) and float(n) == int(n):
            n = int(n)
        if isinstance(n, (int, _np.integer)) and n >= 0:
            r = SymReal(z3.RealVal(1))
            for _ in range(int(n)):
                r = r * self
            return r
        if isinstance(n, (int, _np.integer)) and n < 0:
            return 1 / (self ** (-n))
        raise Unsupported('non-integer power of symbolic value')

    def __rpow__(self, base):
        v = concrete_value(self)
        if v is None:
            raise Unsupported('symbolic exponent')
        return SymReal.of(base) ** v

    def __abs__(self):
        if self.k == FIN:
            return SymReal(_simp(z3.If(self.e >= 0, self.e, -self.e)))
        if self.k == NAN:
            return self
        return SymReal(z3.RealVal(0), PINF)

    def __floordiv__(self, o):
        raise Unsupported('floor division of symbolic value')

    def __mod__(self, o):
        raise Unsupported('modulo of symbolic value')

    # -- comparisons ---------------------------------------------------------------------------
    def _cmp(self, o, op, name):
        if isinstance(o, _np.ndarray):
            return NotImplemented
        o2 = self._co(o)
        if o2 is None:
            if name == 'eq':
                return False
            if name == 'ne':
                return True
            return NotImplemented
        a, b = self, o2
        if a.k == NAN or b.k == NAN:
            return name == 'ne'
        if a.k == FIN and b.k == FIN:
            return mk_bool(op(a.e, b.e))
        rank = {NINF: -1, FIN: 0, PINF: 1}
        ra, rb = rank[a.k], rank[b.k]
        if ra == rb:      # same infinity
            return name in ('eq', 'le', 'ge')
        return op(ra, rb)

    def __lt__(self, o):
        return self._cmp(o, operator.lt, 'lt')

    def __le__(self, o):
        return self._cmp(o, operator.le, 'le')

    def __gt__(self, o):
        return self._cmp(o, operator.gt, 'gt')

    def __ge__(self, o):
        return self._cmp(o, operator.ge, 'ge')

    def __eq__(self, o):
        return self._cmp(o, operator.eq, 'eq')

    def __ne__(self, o):
        return self._cmp(o, operator.ne, 'ne')

    def __hash__(self):
        return 0

    def __bool__(self):
        r = (self != 0)
        return bool(r)

    def __float__(self):
        v = concrete_value(self)
        if v is None:
            raise Unsupported('float() of a symbolic value')
        return float(v)

    def __int__(self):
        v = concrete_value(self)
        if v is None or v != int(v):
            raise Unsupported('int() of a symbolic value')
        return int(v)

    __index__ = __int__

    def __round__(self, n=None):
        note('round')
        return self   # rounding is the identity on mathematical reals (stated assumption)

    def __repr__(self):
        if self.k != FIN:
            return 'SymReal(%s)' % self.k
        return 'SymReal(%s)' % self.e

    def is_finite(self):
        return self.k == FIN


class LogVal:
    """log(x) for a non-negative real x, stored as x: sums of logs multiply, exp() gives x back.
    No transcendental reasoning reaches the solver.  log(0) = -inf is LogVal(0)."""
    __slots__ = ('x',)
    __array_ufunc__ = None

    def __init__(self, x):
        self.x = x      # python number or SymReal, >= 0

    @staticmethod
    def of(v):
        if isinstance(v, LogVal):
            return v
        if isinstance(v, (int, float, _np.floating, _np.integer)) and not isinstance(v, bool):
            if v == 0:
                return LogVal(1)
            if v == -math.inf:
                return LogVal(0)
            return LogVal(math.exp(v))
        return None

    def __add__(self, o):
        o = LogVal.of(o)
        if o is None:
            return NotImplemented
        return LogVal(self.x * o.x)
    __radd__ = __add__

    def __sub__(self, o):
        o = LogVal.of(o)
        if o is None:
            return NotImplemented
        return LogVal(self.x / o.x)

    def __rsub__(self, o):
        o = LogVal.of(o)
        if o is None:
            return NotImplemented
        return LogVal(o.x / self.x)

    def __neg__(self):
        return LogVal(1 / self.x)

    def _cmp(self, o, op):
        o = LogVal.of(o)
        if o is None:
            return NotImplemented
        return op(self.x, o.x)

    def __lt__(self, o):
        return self._cmp(o, operator.lt)

    def __le__(self, o):
        return self._cmp(o, operator.le)

    def __gt__(self, o):
        return self._cmp(o, operator.gt)

    def __ge__(self, o):
        return self._cmp(o, operator.ge)

    def __eq__(self, o):
        oo = LogVal.of(o)
        if oo is None:
            return False
        return self.x == oo.x

    def __ne__(self, o):
        r = self.__eq__(o)
        return (not r) if isinstance(r, bool) else ~r

    def __hash__(self):
        return 0

    def __repr__(self):
        return 'LogVal(%r)' % (self.x,)


class MathFacade:
    """`math` for modules that take log/exp of symbolic reals"""
    inf = math.inf
    nan = math.nan
    pi = math.pi
    e = math.e

    def __getattr__(self, n):
        return getattr(math, n)

    def log(self, x, *base):
        if base:
            raise Unsupported('log with base')
        if isinstance(x, (SymReal, SymBool)):
            x = as_real(x)
            if x.k != FIN:
                raise Unsupported('log of non-finite')
            if x <= 0:            # forks
                if x == 0:
                    raise ValueError('math domain error')
                raise ValueError('math domain error')
            return LogVal(x)
        if isinstance(x, LogVal):
            raise Unsupported('log of log')
        return LogVal(x) if active() and symbolic() else math.log(x)

    def exp(self, x):
        if isinstance(x, LogVal):
            return x.x
        if isinstance(x, SymReal):
            v = concrete_value(x)
            if v is None:
                return exp_uf(x)
            return math.exp(v)
        return math.exp(x)

    def isclose(self, a, b, rel_tol=1e-09, abs_tol=0.0):
        if isinstance(a, (SymReal,)) or isinstance(b, (SymReal,)):
            a, b = as_real(a), as_real(b)
            if a.k != FIN or b.k != FIN:
                return a.k == b.k and a.k != NAN
            d = abs(a - b)
            return (d <= rel_tol * abs(a)) | (d <= rel_tol * abs(b)) | (d <= abs_tol) | (a == b)
        return math.isclose(a, b, rel_tol=rel_tol, abs_tol=abs_tol)

    def isinf(self, x):
        if isinstance(x, SymReal):
            return x.k in (PINF, NINF)
        if isinstance(x, LogVal):
            return bool(x.x == 0)
        return math.isinf(x)

    def isnan(self, x):
        if isinstance(x, SymReal):
            return x.k == NAN
        return math.isnan(x)

    def sqrt(self, x):
        if isinstance(x, SymReal):
            raise Unsupported('sqrt of symbolic')
        return math.sqrt(x)

    def floor(self, x):
        if isinstance(x, SymReal):
            v = concrete_value(x)
            if v is None:
                raise Unsupported('floor of symbolic')
            return math.floor(v)
        return math.floor(x)

    def ceil(self, x):
        if isinstance(x, SymReal):
            v = concrete_value(x)
            if v is None:
                raise Unsupported('ceil of symbolic')
            return math.ceil(v)
        return math.ceil(x)


_EXP = z3.Function('exp', z3.RealSort(), z3.RealSort())


def exp_uf(x):
    """exp of a symbolic real as an uninterpreted function with the facts: exp > 0, strictly monotone (instantiated
    pairwise over the arguments seen on this path), exp(0) = 1.  Sound (every fact is true of exp), incomplete."""
    r = cur()
    x = as_real(x)
    seen = r.__dict__.setdefault('_exp_args', [])
    e = _EXP(x.e)
    r.solver.add(e > 0)
    r.solver.add(z3.Implies(x.e == 0, e == 1))
    for y in seen:
        r.solver.add(z3.Implies(x.e < y, e < _EXP(y)))
        r.solver.add(z3.Implies(x.e > y, e > _EXP(y)))
        r.solver.add(z3.Implies(x.e == y, e == _EXP(y)))
    seen.append(x.e)
    note('external-assumed', what='math.exp', contract='uninterpreted: positive, strictly monotone, exp(0)=1')
    return SymReal(e)


MATH = MathFacade()

import builtins as _builtins


class _FloatMeta(type):
    def __instancecheck__(cls, x):
        return isinstance(x, _builtins.float)

    def __call__(cls, x=0.0):
        if isinstance(x, _np.ndarray) and x.ndim == 0:
            x = x[()]
        if isinstance(x, SymReal):
            return x
        if isinstance(x, SymBool):
            return as_real(x)
        return _builtins.float(x)


class FLOAT(metaclass=_FloatMeta):
    """stands in for the builtin `float` in repo modules during symbolic runs: float(sym) is the identity on reals"""



def concrete_value(x):
    """python number if x is a numeral, else None."""
    if isinstance(x, SymReal):
        if x.k == PINF:
            return math.inf
        if x.k == NINF:
            return -math.inf
        if x.k == NAN:
            return math.nan
        e = _simp(x.e)
        if z3.is_rational_value(e):
            fr = Fraction(e.numerator_as_long(), e.denominator_as_long())
            return int(fr) if fr.denominator == 1 else fr
        if z3.is_int_value(e):
            return e.as_long()
        return None
    if isinstance(x, SymBool):
        return None
    return x


def as_real(x):
    if isinstance(x, _np.ndarray) and x.ndim == 0:
        x = x[()]
    r = SymReal.of(x)
    if r is None:
        raise TypeError('not a number: %r' % (x,))
    return r


def note(kind, **kw):
    if _cur is not None:
        _cur.events.append(dict(kind=kind, **kw))


# ---------------------------------------------------------------------------------------------------
# inputs
# ---------------------------------------------------------------------------------------------------
def real(name, lo=None, hi=None, lo_strict=False, hi_strict=False):
    """A real-valued input leaf. symbolic: fresh z3 Real (with assumed bounds); concrete: model value."""
    r = cur()
    if r.mode == 'concrete':
        v = r.model.get(name, None)
        if v is None:
            if r.rng is not None:
                cands = [x for x in (-2.0, -1.0, -0.5, 0.0, 0.25, 0.5, 0.75, 0.9, 1.0, 3.0)
                         if (lo is None or (x > lo if lo_strict else x >= lo)) and (hi is None or (x < hi if hi_strict else x <= hi))]
                v = r.rng.choice(cands) if cands else _default_in(lo, hi, lo_strict, hi_strict)
            else:
                v = _default_in(lo, hi, lo_strict, hi_strict)
        r.inputs[name] = v
        return float(v)
    c = z3.Real(name)
    r.inputs[name] = c
    if lo is not None:
        r.solver.add(c > _rat(lo) if lo_strict else c >= _rat(lo))
    if hi is not None:
        r.solver.add(c < _rat(hi) if hi_strict else c <= _rat(hi))
    return SymReal(c)


def const(x):
    """an exact constant: symbolic mode -> numeral leaf (so that no float arithmetic touches it); concrete -> float"""
    if symbolic():
        return SymReal(_rat(Fraction(x) if not isinstance(x, float) else x))
    return float(x)


def simplex(names, strict=True):
    """leaves p_1..p_k > 0 (>= 0 if not strict) with sum 1"""
    r = cur()
    if r.mode == 'concrete':
        vals = [r.model.get(n, None) for n in names]
        if any(v is None for v in vals):
            if r.rng is not None:
                raw = [r.rng.choice([1, 1, 2, 3]) if strict else r.rng.choice([0, 1, 2]) for _ in names]
                if sum(raw) == 0:
                    raw[0] = 1
            else:
                raw = [1] * len(names)
            vals = [x / sum(raw) for x in raw]
        out = []
        for n, v in zip(names, vals):
            r.inputs[n] = float(v)
            out.append(float(v))
        return out
    ps = [real(n, 0, 1, lo_strict=strict) for n in names]
    r.solver.add(z3.Sum([p.e for p in ps]) == 1)
    return ps


def integer(name, lo=None, hi=None):
    r = cur()
    if r.mode == 'concrete':
        v = r.model.get(name, None)
        if v is None:
            if r.rng is not None:
                a = lo if lo is not None else (hi - 4 if hi is not None else 0)
                v = r.rng.randint(a, min(hi, a + 6) if hi is not None else a + 6)
            else:
                v = lo if lo is not None else 0
        r.inputs[name] = int(v)
        return int(v)
    c = z3.Int(name)
    r.inputs[name] = c
    if lo is not None:
        r.solver.add(c >= lo)
    if hi is not None:
        r.solver.add(c <= hi)
    return SymReal(z3.ToReal(c))


def boolean(name):
    r = cur()
    if r.mode == 'concrete':
        v = r.model.get(name, None)
        v = bool(v) if v is not None else (r.rng.random() < 0.5 if r.rng is not None else False)
        r.inputs[name] = v
        return v
    c = z3.Bool(name)
    r.inputs[name] = c
    return SymBool(c)


def choose(name, n):
    """Demonic choice of an index in range(n), concretised by forking (symbolic) / scripted (concrete)."""
    r = cur()
    if n <= 0:
        raise ValueError('choose from empty range')
    if r.mode == 'concrete':
        v = r.model.get(name, None)
        v = int(v) if v is not None else (r.rng.randrange(n) if r.rng is not None else 0)
        r.inputs[name] = v
        return min(max(v, 0), n - 1)
    if n == 1:
        return 0
    c = z3.Int(name)
    r.inputs[name] = c
    r.solver.add(c >= 0, c < n)
    for i in range(n - 1):
        if _decide(c == i):
            return i
    return n - 1


def _default_in(lo, hi, ls, hs):
    if lo is not None and hi is not None:
        return (float(lo) + float(hi)) / 2
    if lo is not None:
        return float(lo) + 1
    if hi is not None:
        return float(hi) - 1
    return 0.0


def assume(c):
    r = cur()
    if r.mode == 'concrete':
        ok = c.concrete if isinstance(c, Clause) else bool(c)
        if not ok:
            raise PathInfeasible()
        return
    e = b2z(c)
    r.solver.add(e)


# ---------------------------------------------------------------------------------------------------
# clauses (contract vocabulary, polymorphic over modes)
# ---------------------------------------------------------------------------------------------------
MARGIN = Fraction(1, 10**6)
CTOL = 1e-7


class Clause:
    """A contract clause: exact z3 formula + a 'robust negation' (violation with margin) used to pick
    counterexamples that survive float replay; or a concrete truth value."""
    __slots__ = ('exact', 'robneg', 'concrete', 'text')

    def __init__(self, exact=None, robneg=None, concrete=None, text=''):
        self.exact = exact
        self.robneg = robneg
        self.concrete = concrete
        self.text = text

    def __bool__(self):
        if self.concrete is not None:
            return bool(self.concrete)
        raise RuntimeError('Clause used as a Python truth value; pass it to check()/assume()')


def _c(x):
    """anything boolean-like -> Clause"""
    if isinstance(x, Clause):
        return x
    if symbolic():
        if isinstance(x, (SymBool, bool, _np.bool_, z3.BoolRef)):
            e = b2z(x)
            return Clause(e, z3.Not(e))
        raise TypeError('not a clause: %r' % (x,))
    return Clause(concrete=bool(x))


def _cval(x):
    if isinstance(x, SymReal):
        return concrete_value(x)
    return x


def eq(a, b, tol=None):
    """a == b (exact over the reals; |a-b| <= tol*(1+|b|) in concrete replay)."""
    if symbolic():
        a, b = as_real(a), as_real(b)
        if a.k != FIN or b.k != FIN:
            same = (a.k == b.k) and a.k != NAN
            if a.k != FIN and b.k != FIN:
                return Clause(z3.BoolVal(same), z3.BoolVal(not same))
            return Clause(z3.BoolVal(False), z3.BoolVal(True))
        d = a.e - b.e
        return Clause(a.e == b.e, z3.Or(d > _rat(MARGIN), d < -_rat(MARGIN)))
    if isinstance(a, _np.ndarray):
        a = a[()]
    if isinstance(b, _np.ndarray):
        b = b[()]
    a, b = float(a), float(b)
    t = CTOL if tol is None else tol
    if math.isinf(a) or math.isinf(b):
        return Clause(concrete=(a == b))
    return Clause(concrete=abs(a - b) <= t * (1 + abs(b)))


def le(a, b, tol=None):
    if symbolic():
        a, b = as_real(a), as_real(b)
        if a.k != FIN or b.k != FIN:
            r = (a <= b)
            return Clause(z3.BoolVal(bool(r)), z3.BoolVal(not bool(r)))
        return Clause(a.e <= b.e, a.e > b.e + _rat(MARGIN))
    a, b = float(a), float(b)
    t = CTOL if tol is None else tol
    return Clause(concrete=a <= b + t * (1 + abs(b)) if not (math.isinf(a) or math.isinf(b)) else a <= b)


def ge(a, b, tol=None):
    return le(b, a, tol)


def lt(a, b, tol=None):
    if symbolic():
        a, b = as_real(a), as_real(b)
        if a.k != FIN or b.k != FIN:
            r = (a < b)
            return Clause(z3.BoolVal(bool(r)), z3.BoolVal(not bool(r)))
        return Clause(a.e < b.e, a.e > b.e + _rat(MARGIN))
    t = CTOL if tol is None else tol
    return Clause(concrete=float(a) < float(b) + t * (1 + abs(float(b))) if not (math.isinf(float(a)) or math.isinf(float(b))) else float(a) < float(b))


def true():
    return Clause(z3.BoolVal(True), z3.BoolVal(False)) if symbolic() else Clause(concrete=True)


def false():
    return Clause(z3.BoolVal(False), z3.BoolVal(True)) if symbolic() else Clause(concrete=False)


def And(*cs):
    if len(cs) == 1 and isinstance(cs[0], (list, tuple)):
        cs = cs[0]
    cs = [_c(c) for c in cs]
    if symbolic():
        return Clause(z3.And([c.exact for c in cs]) if cs else z3.BoolVal(True),
                      z3.Or([c.robneg for c in cs]) if cs else z3.BoolVal(False))
    return Clause(concrete=all(c.concrete for c in cs))


def Or(*cs):
    if len(cs) == 1 and isinstance(cs[0], (list, tuple)):
        cs = cs[0]
    cs = [_c(c) for c in cs]
    if symbolic():
        return Clause(z3.Or([c.exact for c in cs]) if cs else z3.BoolVal(False),
                      z3.And([c.robneg for c in cs]) if cs else z3.BoolVal(True))
    return Clause(concrete=any(c.concrete for c in cs))


def Not(c):
    c = _c(c)
    if symbolic():
        return Clause(z3.Not(c.exact), c.exact)
    return Clause(concrete=not c.concrete)


def Implies(h, c):
    h, c = _c(h), _c(c)
    if symbolic():
        return Clause(z3.Implies(h.exact, c.exact), z3.And(h.exact, c.robneg))
    return Clause(concrete=(not h.concrete) or c.concrete)


def Iff(a, b):
    return And(Implies(a, b), Implies(b, a))


def If(c, a, b):
    """value-level if-then-else without forking"""
    if symbolic():
        if isinstance(c, bool):
            return a if c else b
        ce = b2z(c)
        a, b = as_real(a), as_real(b)
        if a.k != FIN or b.k != FIN:
            return a if _decide(ce) else b
        return SymReal(_simp(z3.If(ce, a.e, b.e)))
    cc = c.concrete if isinstance(c, Clause) else bool(c)
    return a if cc else b


def Max(xs):
    xs = list(xs)
    if not xs:
        return -math.inf
    if symbolic():
        m = as_real(xs[0])
        for x in xs[1:]:
            x = as_real(x)
            if m.k == NINF:
                m = x
            elif x.k == NINF:
                pass
            elif m.k == PINF or x.k == PINF:
                m = SymReal(z3.RealVal(0), PINF)
            elif m.k == NAN or x.k == NAN:
                m = SymReal(z3.RealVal(0), NAN)
            else:
                m = SymReal(_simp(z3.If(m.e >= x.e, m.e, x.e)))
        return m
    return max(float(x) for x in xs)


def Min(xs):
    return -Max([-as_real(x) if symbolic() else -float(x) for x in xs])


def Sum(xs):
    t = 0
    for x in xs:
        t = t + x
    return t


def Abs(x):
    return abs(x)


def gt0(x):
    """x > 0 as Clause"""
    return lt(0, x)


def truth(x):
    """boolean leaf / python bool -> Clause"""
    return _c(x)


# ---------------------------------------------------------------------------------------------------
# obligations
# ---------------------------------------------------------------------------------------------------
def _model_dict(m, r):
    out = {}
    for name, c in r.inputs.items():
        v = m.eval(c, model_completion=True)
        if z3.is_rational_value(v):
            out[name] = str(Fraction(v.numerator_as_long(), v.denominator_as_long()))
        elif z3.is_int_value(v):
            out[name] = v.as_long()
        elif z3.is_true(v) or z3.is_false(v):
            out[name] = bool(z3.is_true(v))
        elif z3.is_algebraic_value(v):
            out[name] = str(v.approx(12)).rstrip('?')
        else:
            out[name] = str(v)
    return out


def _cvc5_check(solver, extra, timeout_s=20):
    """second back end for z3's unknowns: dump SMT-LIB, run /usr/bin/cvc5. returns 'unsat'|'sat'|'unknown'"""
    try:
        s2 = z3.Solver()
        s2.add(solver.assertions())
        s2.add(extra)
        txt = '(set-logic ALL)\n' + s2.to_smt2()
        with tempfile.NamedTemporaryFile('w', suffix='.smt2', delete=False, dir=os.environ.get('SYMRUN_TMP', None)) as f:
            f.write(txt)
            p = f.name
        try:
            out = subprocess.run(['/usr/bin/cvc5', '--tlimit=%d' % int(timeout_s * 1000), p], capture_output=True, text=True,
                                 timeout=timeout_s + 5).stdout.strip().split('\n')[0]
        finally:
            os.unlink(p)
        return out if out in ('sat', 'unsat') else 'unknown'
    except Exception:
        return 'unknown'


def check(name, clause, detail=None):
    """Obligation: on this path, pc => clause."""
    r = cur()
    c = _c(clause)
    if r.mode == 'concrete':
        r.checks.append(dict(name=name, status='proved' if c.concrete else 'failed', detail=detail))
        return bool(c.concrete)
    t0 = time.time()
    # staged portfolio, sized so that a verdict does not flip when the machine is loaded: z3 with a short budget (most obligations are linear and take
    # milliseconds), then cvc5 (decides the nonlinear ones z3's nlsat is unstable on), then z3 again with the full budget
    quick_ms = min(r.vc_timeout_ms, 5000)
    r.solver.set('timeout', quick_ms)
    neg = _simp(z3.Not(c.exact))
    res = z3.unsat if z3.is_false(neg) else r.solver.check(neg)
    r.n_queries += 1
    backend = 'z3'
    status, model = None, None
    if res == z3.unknown:
        o = _cvc5_check(r.solver, neg, timeout_s=max(60, int(r.vc_timeout_ms * 3 / 1000)))
        if o == 'unsat':
            res, backend = z3.unsat, 'cvc5'
        elif r.vc_timeout_ms > quick_ms:
            r.solver.set('timeout', r.vc_timeout_ms)
            res = r.solver.check(neg)
    if res == z3.unsat:
        status = 'proved'
    elif res == z3.sat:
        status = 'failed'
        model = _model_dict(r.solver.model(), r)      # keep the exact counter-model before looking for one with margin
        robust = False
        try:
            rb = r.solver.check(c.robneg) if c.robneg is not None else z3.unknown
            if rb == z3.sat:
                model = _model_dict(r.solver.model(), r)
                robust = True
        except z3.Z3Exception:
            pass
    else:
        status = 'unknown'     # undecided by z3 (twice) and cvc5; a cvc5 'sat' without model extraction stays undecided
    r.solver.set('timeout', r.fork_timeout_ms)
    r.solver_s += time.time() - t0
    rec = dict(name=name, status=status, backend=backend, detail=detail, t=round(time.time() - t0, 3))
    if status == 'failed':
        rec['model'] = model
        rec['robust'] = robust
        rec['trace'] = list(r.trace)
    r.checks.append(rec)
    return status == 'proved'


def fail(name, detail=None):
    """An unconditional failure on this (feasible) path, e.g. an unexpected exception."""
    return check(name, false(), detail=detail)


# ---------------------------------------------------------------------------------------------------
# exploration
# ---------------------------------------------------------------------------------------------------
class ExploreResult:
    def __init__(self):
        self.paths = 0
        self.infeasible = 0
        self.checks = {}       # name -> dict(proved=, failed=, unknown=, models=[...])
        self.errors = []       # engine errors (Unsupported, PathLimit)
        self.solver_s = 0.0
        self.queries = 0
        self.events = []
        self.truncated = False
        self.backends = {}

    def add_check(self, c):
        d = self.checks.setdefault(c['name'], dict(proved=0, failed=0, unknown=0, witnesses=[], t=0.0))
        d[c['status']] += 1
        d['t'] = round(d.get('t', 0.0) + c.get('t', 0.0), 3)
        self.backends[c.get('backend', 'z3')] = self.backends.get(c.get('backend', 'z3'), 0) + 1
        if c['status'] == 'failed' and len(d['witnesses']) < 3:
            d['witnesses'].append(dict(model=c.get('model'), robust=c.get('robust'), detail=c.get('detail'),
                                       trace=c.get('trace')))

    def summary(self):
        return dict(paths=self.paths, infeasible=self.infeasible, checks=self.checks, errors=self.errors,
                    solver_s=round(self.solver_s, 3), queries=self.queries, truncated=self.truncated,
                    backends=self.backends, events=self.events[:20])


def explore(harness, args=(), max_paths=2000, deadline_s=120, unexpected='no-unexpected-exception',
            fork_timeout_ms=2000, vc_timeout_ms=10000, keep_events=False):
    """Run harness(*args) once per feasible path."""
    global _cur
    res = ExploreResult()
    pending = [[]]
    t_end = time.time() + deadline_s
    while pending:
        if res.paths >= max_paths or time.time() > t_end:
            res.truncated = True
            res.errors.append('exploration truncated: %d paths pending' % len(pending))
            break
        prefix = pending.pop()
        r = Run(prefix, 'symbolic', fork_timeout_ms=fork_timeout_ms, vc_timeout_ms=vc_timeout_ms)
        _cur = r
        try:
            try:
                harness(*args)
            except PathInfeasible:
                res.infeasible += 1
                r.checks = []
            except PathEnd:
                if r.solver.check() == z3.unsat:
                    res.infeasible += 1
                    r.checks = []
            except PathLimit as e:
                res.errors.append('PathLimit: %s' % e)
            except Unbound as e:
                res.errors.append('Unbound: %s' % e)
            except Unsupported as e:
                res.errors.append('Unsupported: %s' % e)
            except RecursionError as e:
                res.errors.append('RecursionError')
            except Exception as e:
                tb = traceback.format_exc(limit=-6)
                if r.solver.check() == z3.unsat:
                    res.infeasible += 1
                    r.checks = []
                else:
                    fail(unexpected, detail='%s: %s\n%s' % (type(e).__name__, e, tb))
            else:
                # vacuity: discard obligations of a path whose assumptions became contradictory
                if r.solver.check() == z3.unsat:
                    res.infeasible += 1
                    r.checks = []
        finally:
            _cur = None
        res.paths += 1
        pending.extend(r.pending)
        for c in r.checks:
            res.add_check(c)
        res.solver_s += r.solver_s
        res.queries += r.n_queries
        if keep_events:
            res.events.extend(r.events)
    return res


def run_concrete(harness, args=(), model=None, rng=None):
    """Replay: same harness, leaves are floats from the model, real numpy, no forking."""
    global _cur
    m = {}
    for k, v in (model or {}).items():
        if isinstance(v, str):
            try:
                v = float(Fraction(v))
            except Exception:
                try:
                    v = float(v)
                except Exception:
                    pass
        m[k] = v
    r = Run([], 'concrete', model=m)
    r.rng = rng
    _cur = r
    exc = None
    try:
        try:
            harness(*args)
        except PathInfeasible:
            return dict(status='infeasible', checks=[])
        except Exception as e:
            exc = '%s: %s\n%s' % (type(e).__name__, e, traceback.format_exc(limit=-6))
            r.checks.append(dict(name='no-unexpected-exception', status='failed', detail=exc))
    finally:
        _cur = None
    return dict(status='ran', checks=r.checks, inputs={k: (v if isinstance(v, (int, float, bool, str)) else str(v))
                                                       for k, v in r.inputs.items()})
