from . import core
