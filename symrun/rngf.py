"""Demonic random generator and ambient-generator tripwires.

DemonicRng over-approximates random.Random: every draw is an arbitrary admissible value (fresh leaf or a
forked choice).  A postcondition proved against it holds for all seeds / all sampled histories.
In concrete (replay) mode the same draws are read from the counterexample model (scripted generator)."""
import math
from . import core as S


class DrawBudgetExceeded(Exception):
    """a strict DemonicRng was asked for more draws than the code under contract can legitimately need (e.g. more than its step cap allows)"""


class DemonicRng:
    def __init__(self, tag='rng', max_draws=None, strict=False):
        self.tag = tag
        self.n = 0
        self.log = []
        self.max_draws = max_draws      # histories longer than this many draws are cut (path ends; bound stated by the caller)
        self.strict = strict            # strict: exceeding the bound is not a cut but an event the harness reports (the bound is a consequence of the contract)

    def _name(self, kind):
        self.n += 1
        if self.max_draws is not None and self.n > self.max_draws:
            if self.strict:
                raise DrawBudgetExceeded('%d draws requested, at most %d can be needed' % (self.n, self.max_draws))
            raise S.PathEnd()
        return '%s_%s_%d' % (self.tag, kind, self.n)

    def random(self):
        v = S.real(self._name('random'), 0, 1, hi_strict=True)
        self.log.append(('random', v))
        return v

    def uniform(self, a, b):
        return a + (b - a) * self.random()

    def _positive(self, w):
        if isinstance(w, (S.SymReal, S.SymBool)):
            return bool(w > 0)
        return w > 0

    def choices(self, population, weights=None, cum_weights=None, k=1):
        population = list(population)
        if weights is None and cum_weights is None:
            cands = list(range(len(population)))
        elif weights is not None:
            weights = list(weights)
            if len(weights) != len(population):
                raise ValueError('The number of weights does not match the population')
            cands = [i for i, w in enumerate(weights) if self._positive(w)]
        else:
            cw = list(cum_weights)
            cands = [i for i in range(len(cw)) if self._positive(cw[i] - (cw[i - 1] if i else 0))]
        if not cands:
            raise ValueError('Total of weights must be greater than zero')
        out = []
        for _ in range(k):
            j = cands[S.choose(self._name('choices'), len(cands))]
            self.log.append(('choices', j))
            out.append(population[j])
        return out

    def choice(self, seq):
        seq = list(seq) if not hasattr(seq, '__getitem__') else seq
        if len(seq) == 0:
            raise IndexError('Cannot choose from an empty sequence')
        j = S.choose(self._name('choice'), len(seq))
        self.log.append(('choice', j))
        return seq[j]

    def shuffle(self, x):
        items = list(x)
        out = []
        while items:
            j = S.choose(self._name('shuffle'), len(items))
            out.append(items.pop(j))
        x[:] = out
        self.log.append(('shuffle', None))

    def sample(self, population, k):
        items = list(population)
        out = []
        for _ in range(k):
            j = S.choose(self._name('sample'), len(items))
            out.append(items.pop(j))
        return out

    def randint(self, a, b):
        if b - a + 1 <= 8:
            v = a + S.choose(self._name('randint'), b - a + 1)
        else:
            v = a      # value irrelevant for the properties checked (only used to derive further seeds)
        self.log.append(('randint', v))
        return v

    def randrange(self, a, b=None):
        if b is None:
            a, b = 0, a
        return self.randint(a, b - 1)

    def seed(self, *a, **k):
        self.log.append(('seed', a))

    def getstate(self):
        return ('demonic', self.n)

    def setstate(self, st):
        pass


class Tripwire:
    """stands in for a process-global generator (module `random`, np.random, torch RNG): records every use."""

    def __init__(self, name, uses, delegate=None, private_budget=None):
        object.__setattr__(self, '_budget', private_budget)
        object.__setattr__(self, '_name', name)
        object.__setattr__(self, '_uses', uses)
        object.__setattr__(self, '_delegate', delegate or DemonicRng('ambient_' + name))

    def __getattr__(self, attr):
        r = S.cur() if S.active() else None
        if r is not None and r.mode == 'concrete' and r.rng is not None:
            # run-time tier: REAL seeds and the real generator (uses of the ambient one are still recorded)
            import random as _real
            if attr != 'Random':
                self._uses.append('%s.%s' % (self._name, attr))
            return getattr(_real, attr)
        if attr in ('Random',):
            # constructing a PRIVATE generator from a seed is allowed: it yields a demonic private generator
            def mk(seed=None):
                if seed is None:
                    self._uses.append('%s.Random() seeded from system entropy' % self._name)
                return DemonicRng('private', max_draws=self._budget)
            return mk
        self._uses.append('%s.%s' % (self._name, attr))
        return getattr(self._delegate, attr)


# ---------------------------------------------------------------------------------------------------
# default arguments `rng=random` are bound to the real module at definition time: a module-global tripwire cannot see them
# ---------------------------------------------------------------------------------------------------
import contextlib as _ctx, inspect as _inspect, sys as _sys, random as _random_mod

_SITES = None


def _default_rng_sites():
    global _SITES
    if _SITES is not None:
        return _SITES
    import msdm  # noqa
    sites = []
    seen = set()

    def visit_fn(f):
        f = _inspect.unwrap(f) if callable(f) else f
        if not _inspect.isfunction(f) or id(f) in seen:
            return
        seen.add(id(f))
        if f.__kwdefaults__:
            for k, v in f.__kwdefaults__.items():
                if v is _random_mod:
                    sites.append((f, 'kw', k))
        if f.__defaults__:
            for i, v in enumerate(f.__defaults__):
                if v is _random_mod:
                    sites.append((f, 'pos', i))
    for name, mod in list(_sys.modules.items()):
        if not name.startswith('msdm') or mod is None:
            continue
        for obj in list(vars(mod).values()):
            if _inspect.isfunction(obj) and getattr(obj, '__module__', '').startswith('msdm'):
                visit_fn(obj)
            elif _inspect.isclass(obj) and getattr(obj, '__module__', '').startswith('msdm'):
                for v in list(vars(obj).values()):
                    visit_fn(getattr(v, '__func__', getattr(v, 'fget', v)))
    _SITES = sites
    return sites


@_ctx.contextmanager
def default_rng_tripwire(trip):
    """swap every `rng=random` default argument of msdm functions for the tripwire while the block runs"""
    sites = _default_rng_sites()
    for f, kind, k in sites:
        if kind == 'kw':
            f.__kwdefaults__[k] = trip
        else:
            d = list(f.__defaults__)
            d[k] = trip
            f.__defaults__ = tuple(d)
    try:
        yield len(sites)
    finally:
        for f, kind, k in sites:
            if kind == 'kw':
                f.__kwdefaults__[k] = _random_mod
            else:
                d = list(f.__defaults__)
                d[k] = _random_mod
                f.__defaults__ = tuple(d)
