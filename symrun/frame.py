"""symrun.frame -- frame condition over state that outlives a call: module-level and class-level mutable containers.

A call into the library may cache on the objects it is given or on the object it is called on; it must not leave model-derived state in module globals or
in class attributes (shared by every instance and every later call).  `snapshot(mods)` records every dict / list / set / deque held directly by a module
global or by an attribute of a class defined in that module; `changes(before, after)` lists the containers that appeared, grew, shrank or changed content."""
import collections, inspect, sys

_CONTAINERS = (dict, list, set, bytearray, collections.deque)


def _digest(c):
    try:
        if isinstance(c, dict):
            items = list(c.keys())
        else:
            items = list(c)
        return (len(items), tuple(repr(x)[:60] for x in items[:30]))
    except Exception:
        return (-1, ())


def snapshot(mods):
    snap = {}
    for m in mods:
        if isinstance(m, str):
            m = sys.modules[m]
        for k, v in list(vars(m).items()):
            if k.startswith('__'):
                continue
            if isinstance(v, _CONTAINERS):
                snap[(m.__name__, k)] = (id(v), _digest(v))
            elif inspect.isclass(v) and getattr(v, '__module__', None) == m.__name__:
                for ck, cv in list(vars(v).items()):
                    if ck.startswith('__'):
                        continue
                    if isinstance(cv, _CONTAINERS):
                        snap[(m.__name__, v.__name__ + '.' + ck)] = (id(cv), _digest(cv))
    return snap


def changes(before, after):
    out = []
    for k, (i, d) in after.items():
        if k not in before:
            if d[0] != 0:
                out.append('%s.%s appeared with %d entries' % (k[0], k[1], d[0]))
        elif before[k][1] != d:
            out.append('%s.%s changed: %d -> %d entries' % (k[0], k[1], before[k][1][0], d[0]))
    return out
