"""Swap module-level globals of repo modules for facades while a symbolic run is active."""
import contextlib, importlib


@contextlib.contextmanager
def patched(*specs):
    """specs: (module_or_name, {global_name: replacement})"""
    saved = []
    try:
        for mod, repl in specs:
            if isinstance(mod, str):
                mod = importlib.import_module(mod)
            for k, v in repl.items():
                saved.append((mod, k, mod.__dict__.get(k, _MISSING)))
                mod.__dict__[k] = v
        yield
    finally:
        for mod, k, old in reversed(saved):
            if old is _MISSING:
                mod.__dict__.pop(k, None)
            else:
                mod.__dict__[k] = old


_MISSING = object()
