"""Swap module-level globals of repo modules for facades while a symbolic run is active."""
import contextlib, importlib


@contextlib.contextmanager
def patched(*specs):
    """specs: (module_or_name, {global_name: replacement})"""
    saved = []
    trips = []
    try:
        # a `random` tripwire also has to cover `rng=random` DEFAULT ARGUMENTS (bound to the real module at definition time)
        from . import rngf as _rngf
        for mod, repl in specs:
            v = repl.get('random') if isinstance(repl, dict) else None
            if isinstance(v, _rngf.Tripwire) and not trips:
                cm = _rngf.default_rng_tripwire(v)
                cm.__enter__()
                trips.append(cm)
        for mod, repl in specs:
            if isinstance(mod, str):
                mod = importlib.import_module(mod)
            for k, v in repl.items():
                saved.append((mod, k, mod.__dict__.get(k, _MISSING)))
                mod.__dict__[k] = v
        yield
    finally:
        for cm in trips:
            cm.__exit__(None, None, None)
        for mod, k, old in reversed(saved):
            if old is _MISSING:
                mod.__dict__.pop(k, None)
            else:
                mod.__dict__[k] = old


_MISSING = object()
