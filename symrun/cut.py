"""symrun.cut -- mechanical loop cutting of REAL functions (re-read from /repo on every run).

cut(fn, {ordinal: CutSpec}) returns a new function object whose source is fn's source with the selected
loops (numbered in pre-order: 0,1,...) replaced by the usual inductive scheme

    __cut__.begin(K, locals())              # obligation: Inv holds on entry
    <write set> = __cut__.havoc(K, locals())#   havoc the loop's write set, assume Inv
    for TARGET in __cut__.iterate(K, ITER, locals()):   # demonic: exhausted | exactly one arbitrary element
        BODY                                #   `continue` -> back edge
        __cut__.back_edge(K, locals())      # obligation: Inv re-established; the path ENDS here
    (code after the loop runs from the havocked state when the iterator is exhausted / guard is false,
     or from the body's state after `break`)

`while` loops keep their own guard (evaluated on the havocked state: true -> body -> back edge,
false -> exit).  Nothing else in the function's text changes.  The transformed text is written to
evidence/extracted/ together with the SHA-256 of the source file it came from.

Soundness rule for the write set: every name assigned anywhere in the loop (targets, augmented
assignments, subscript/attribute bases) must either be given a value by CutSpec.havoc or is bound to a
POISON object that raises Unsupported on any use -- a stale pre-loop value can never leak into the step.
"""
import ast, traceback, inspect, textwrap, types, hashlib, os, copy, re
from . import core as S


PathEnd = S.PathEnd


class _Poison:
    def __init__(self, name):
        object.__setattr__(self, '_n', name)

    def _boom(self, *a, **k):
        # the loop writes a variable its contract does not know (e.g. a new flag introduced by a rewrite of the loop): the contract is out of date
        raise S.Unbound('use of havocked variable %r that the CutSpec does not define' % object.__getattribute__(self, '_n'))
    __getattr__ = __getitem__ = __setitem__ = __call__ = __iter__ = __len__ = __bool__ = __add__ = __radd__ = \
        __mul__ = __rmul__ = __sub__ = __rsub__ = __lt__ = __gt__ = __le__ = __ge__ = __eq__ = __hash__ = __float__ = _boom


class CutSpec:
    def __init__(self, inv, havoc, element=None, exhausted=None, name='', iter_src=None, iterable_ok=None):
        self.iter_src = iter_src        # with `element`: the source text of the iterable expression the contract was written for (ast.unparse form)
        self.iterable_ok = iterable_ok  # with `element`: (L, value) -> bool, semantic check of the evaluated iterable (preferred where it can be evaluated)
        self.inv = inv          # L(dict of locals) -> Clause
        self.havoc = havoc      # L -> dict name -> havocked value
        self.element = element  # (L, iterable) -> element for the single arbitrary iteration (may assume)
        self.exhausted = exhausted  # L -> Clause assumed when the iterator is exhausted (ghost link, e.g. k == n)
        self.name = name


_MUTATORS = ('append', 'add', 'pop', 'update', 'extend', 'remove', 'clear', 'insert', 'discard', 'setdefault', 'popitem', 'sort', 'reverse', 'fill',
             'appendleft', 'popleft', '__setitem__', '__delitem__')
_IMMUTABLE = (int, float, complex, str, bytes, tuple, frozenset, bool, type(None), range)


class Runtime:
    def __init__(self, specs, write_sets, fname, iter_srcs=None, mutated=None, called=None):
        self.mutated = mutated or {}
        self.called = called or {}
        self.specs = specs
        self.iter_srcs = iter_srcs or {}
        self.write_sets = write_sets
        self.fname = fname
        self.depth = {}

    def _bind(self, fn, *a):
        """invariants / havoc generators name loop-carried variables of the real function: if the code was refactored (renamed locals) the
        binding fails -- that is an UNDECIDED obligation (engine limitation), never a violation"""
        try:
            return fn(*a)
        except KeyError as e:
            raise S.Unbound('loop contract of %s cannot be bound to the current source: local variable %s not found' % (self.fname, e))
        except (IndexError, AttributeError, TypeError) as e:
            # raised by the CONTRACT's own code while it reads the function's locals: they do not have the shape the contract was written for
            tb = traceback.extract_tb(e.__traceback__)
            if tb and '/props/' in tb[-1].filename:
                raise S.Unbound('loop contract of %s cannot be bound to the current source: %s: %s' % (self.fname, type(e).__name__, e))
            raise

    def begin(self, k, L):
        S.check('%s:loop%d:inv-init' % (self.fname, k), self._bind(self.specs[k].inv, dict(L)))

    def havoc(self, k, L):
        L = dict(L)
        h = self._bind(self.specs[k].havoc, L)
        out = []
        for n in self.write_sets[k]:
            out.append(h[n] if n in h else _Poison(n))
        # havoc rebinds NAMES; the real loop mutates OBJECTS.  If another live local is the same mutable object as a havocked one, or a method bound to it
        # (`get = acc.get` before the loop), the body would read the pre-loop object through the alias while the contract talks about the havocked one:
        # such a contract does not describe the current source -> unbound (undecided), never a failed obligation.
        ws = set(self.write_sets[k])
        for m in self.called.get(k, ()):
            v = L.get(m, None)
            owner = getattr(v, '__self__', None)
            if owner is not None and getattr(v, '__name__', '') in _MUTATORS and not isinstance(owner, _IMMUTABLE):
                raise S.Unbound('loop %d of %s changes an object through the bound method %r (= %s.%s) taken before the loop; its contract names the object' % (
                    k, self.fname, m, type(owner).__name__, v.__name__))
        for n in ws & self.mutated.get(k, ws):
            v0 = L.get(n, None)
            if v0 is None or isinstance(v0, _IMMUTABLE) or type(v0).__module__.startswith('symrun.core'):
                continue
            for m, v in L.items():
                if m in ws or m.startswith('__'):
                    continue
                if v is v0 or getattr(v, '__self__', None) is v0:
                    raise S.Unbound('loop %d of %s: local %r aliases the loop-carried object %r that the contract havocs' % (k, self.fname, m, n))
        L2 = dict(L)
        L2.update({n: v for n, v in zip(self.write_sets[k], out)})
        S.assume(self._bind(self.specs[k].inv, L2))
        return tuple(out) if len(out) != 1 else (out[0],)

    def _check_iterable(self, k, iterable, L):
        """an `element` hook describes the loop's elements abstractly, so the real iterable is never enumerated: make sure it still IS the iterable the
        contract talks about (a change of the iterable expression must not go unnoticed).  Mismatch = contract not bindable = undecided."""
        spec = self.specs[k]
        if spec.element is None:
            return
        if spec.iterable_ok is not None:
            v = iterable()
            if not self._bind(spec.iterable_ok, dict(L), v):
                raise S.Unbound('loop %d of %s iterates over something its contract does not describe: %r' % (k, self.fname, v))
        elif spec.iter_src is not None:
            if _norm(spec.iter_src) != _norm(self.iter_srcs.get(k, '')):
                raise S.Unbound('loop %d of %s iterates over `%s`, its contract was written for `%s`' % (k, self.fname, self.iter_srcs.get(k), spec.iter_src))
        else:
            raise S.Unsupported('loop %d of %s: a CutSpec with an element hook needs iter_src or iterable_ok' % (k, self.fname))

    def iterate(self, k, iterable, L):
        self._check_iterable(k, iterable, L)
        # demonic: exhausted, or one more arbitrary element
        more = S.boolean(S.cur().fresh('cut%d_more' % k)) if S.symbolic() else False
        if more:
            spec = self.specs[k]
            if spec.element is not None:
                yield self._bind(spec.element, dict(L), iterable)      # `iterable` is a thunk: not evaluated (it may be symbolic, e.g. range(max_steps))
                raise RuntimeError('cut loop body fell through without back_edge')
            iterable = iterable()
            if isinstance(iterable, range):
                i = S.integer(S.cur().fresh('cut%d_i' % k), iterable.start, iterable.stop - 1)
                if iterable.stop - iterable.start <= 0:
                    raise S.PathInfeasible()
                yield i
            else:
                seq = list(iterable)
                if not seq:
                    raise S.PathInfeasible()
                yield seq[S.choose(S.cur().fresh('cut%d_el' % k), len(seq))]
            raise RuntimeError('cut loop body fell through without back_edge')
        elif self.specs[k].exhausted is not None:
            S.assume(self.specs[k].exhausted(dict(L)))

    def back_edge(self, k, L):
        S.check('%s:loop%d:inv-step' % (self.fname, k), self._bind(self.specs[k].inv, dict(L)))
        raise PathEnd()


def _norm(src):
    try:
        return ast.unparse(ast.parse(src.strip(), mode='eval'))
    except SyntaxError:
        return src.strip()


def _loops_preorder(fnode):
    out = []

    class V(ast.NodeVisitor):
        def visit_For(self, n):
            out.append(n)
            self.generic_visit(n)

        def visit_While(self, n):
            out.append(n)
            self.generic_visit(n)

        def visit_FunctionDef(self, n):
            if n is fnode:
                self.generic_visit(n)

        def visit_Lambda(self, n):
            pass
    V().visit(fnode)
    return out


def _write_set(loop):
    names = []

    def base(t):
        while isinstance(t, (ast.Subscript, ast.Attribute, ast.Starred)):
            t = t.value
        return t

    def add_target(t):
        if isinstance(t, (ast.Tuple, ast.List)):
            for e in t.elts:
                add_target(e)
            return
        b = base(t)
        if isinstance(b, ast.Name) and b.id not in names:
            names.append(b.id)

    for n in ast.walk(loop):
        if isinstance(n, ast.Assign):
            for t in n.targets:
                add_target(t)
        elif isinstance(n, (ast.AugAssign, ast.AnnAssign)):
            add_target(n.target)
        elif isinstance(n, (ast.For, ast.comprehension)):
            add_target(n.target)
        elif isinstance(n, ast.With):
            for it in n.items:
                if it.optional_vars is not None:
                    add_target(it.optional_vars)
        elif isinstance(n, ast.NamedExpr):
            add_target(n.target)
        elif isinstance(n, ast.Call) and isinstance(n.func, ast.Attribute) and isinstance(base(n.func), ast.Name):
            # method calls that may mutate their receiver (append/add/pop/update/...)
            if n.func.attr in ('append', 'add', 'pop', 'update', 'extend', 'remove', 'clear', 'insert', 'discard',
                               'setdefault', 'popitem', 'sort', 'reverse', 'fill'):
                b = base(n.func)
                if b.id not in names:
                    names.append(b.id)
    # comprehension targets are scoped to the comprehension; drop those that are only bound there
    comp_only = set()
    for n in ast.walk(loop):
        if isinstance(n, ast.comprehension):
            for t in ast.walk(n.target):
                if isinstance(t, ast.Name):
                    comp_only.add(t.id)
    assigned_outside_comp = set()
    for n in ast.walk(loop):
        if isinstance(n, (ast.Assign, ast.AugAssign, ast.For)):
            tgts = n.targets if isinstance(n, ast.Assign) else [n.target]
            for t in tgts:
                for x in ast.walk(t):
                    if isinstance(x, ast.Name):
                        assigned_outside_comp.add(x.id)
    return [n for n in names if not (n in comp_only and n not in assigned_outside_comp)]


class _ContinueToBackEdge(ast.NodeTransformer):
    def __init__(self, k):
        self.k = k

    def visit_For(self, n):
        return n    # inner loops keep their own continue

    def visit_While(self, n):
        return n

    def visit_FunctionDef(self, n):
        return n

    def visit_Continue(self, n):
        return _back_edge_stmt(self.k)


_GN = ['__cut__']


def _call(attr, *args):
    return ast.Call(func=ast.Attribute(value=ast.Name(id=_GN[0], ctx=ast.Load()), attr=attr, ctx=ast.Load()),
                    args=list(args), keywords=[])


def _locals():
    return ast.Call(func=ast.Name(id='locals', ctx=ast.Load()), args=[], keywords=[])


def _mutated_set(loop):
    """names whose OBJECT the loop may change in place (subscript / attribute stores, augmented assignment, mutating method calls) -- as opposed to
    names that are only rebound"""
    names = set()

    def base(t):
        while isinstance(t, (ast.Subscript, ast.Attribute, ast.Starred)):
            t = t.value
        return t

    def add_target(t, aug=False):
        if isinstance(t, (ast.Tuple, ast.List)):
            for e in t.elts:
                add_target(e, aug)
            return
        b = base(t)
        if isinstance(b, ast.Name) and (aug or b is not t):
            names.add(b.id)

    for n in ast.walk(loop):
        if isinstance(n, ast.Assign):
            for t in n.targets:
                add_target(t)
        elif isinstance(n, ast.AugAssign):
            add_target(n.target, aug=True)
        elif isinstance(n, ast.AnnAssign):
            add_target(n.target)
        elif isinstance(n, ast.Call) and isinstance(n.func, ast.Attribute) and isinstance(base(n.func), ast.Name):
            if n.func.attr in ('append', 'add', 'pop', 'update', 'extend', 'remove', 'clear', 'insert', 'discard',
                               'setdefault', 'popitem', 'sort', 'reverse', 'fill'):
                names.add(base(n.func).id)
    return names


def _back_edge_stmt(k):
    return ast.Expr(value=_call('back_edge', ast.Constant(k), _locals()))


def cut(fn, specs, dump_dir=None):
    """returns (new_function, extracted_source_text, info)"""
    fn = inspect.unwrap(fn)
    _GN[0] = '__cut__' + re.sub(r'\W', '_', fn.__qualname__)
    src_file = inspect.getsourcefile(fn)
    src = textwrap.dedent(inspect.getsource(fn))
    tree = ast.parse(src)
    fnode = tree.body[0]
    assert isinstance(fnode, ast.FunctionDef), 'cut() needs a plain function'
    fnode.decorator_list = []
    loops = _loops_preorder(fnode)
    write_sets = {}
    mutated = {}
    called = {}
    iter_srcs = {k: ast.unparse(loops[k].iter) for k in specs if k < len(loops) and isinstance(loops[k], ast.For)}
    for k in specs:
        if k >= len(loops):
            raise S.Unbound('function %s has no loop %d' % (fn.__qualname__, k))
    # transform innermost-last so that node identities stay valid
    for k in sorted(specs, reverse=True):
        loop = loops[k]
        ws = _write_set(loop)
        write_sets[k] = ws
        mutated[k] = _mutated_set(loop)
        called[k] = sorted({n.func.id for n in ast.walk(loop) if isinstance(n, ast.Call) and isinstance(n.func, ast.Name)})
        # havoc assigns NAMES of the function; a loop that also writes an object reached through a module global (a debug counter, a memo table)
        # carries state the loop contract does not describe: unbound (undecided), never a failed obligation
        code_locals = set(fn.__code__.co_varnames) | set(fn.__code__.co_cellvars) | set(fn.__code__.co_freevars)
        for n in ws:
            if n not in code_locals:
                raise S.Unbound('loop %d of %s writes %r, which is not a local of the function (module-level state that its loop contract does not describe)' % (k, fn.__qualname__, n))
        body = [(_ContinueToBackEdge(k).visit(s)) for s in loop.body]
        body = [s for s in body if s is not None] + [_back_edge_stmt(k)]
        pre = [ast.Expr(value=_call('begin', ast.Constant(k), _locals()))]
        if ws:
            pre.append(ast.Assign(
                targets=[ast.Tuple(elts=[ast.Name(id=n, ctx=ast.Store()) for n in ws], ctx=ast.Store())],
                value=_call('havoc', ast.Constant(k), _locals())))
        if isinstance(loop, ast.For):
            lazy = ast.Lambda(args=ast.arguments(posonlyargs=[], args=[], kwonlyargs=[], kw_defaults=[], defaults=[]), body=loop.iter)
            new = ast.For(target=loop.target, iter=_call('iterate', ast.Constant(k), lazy, _locals()),
                          body=body, orelse=loop.orelse)
        else:
            new = ast.While(test=loop.test, body=body, orelse=loop.orelse)

        class R(ast.NodeTransformer):
            def generic_visit(self_, node):
                for field, old in ast.iter_fields(node):
                    if isinstance(old, list):
                        newl = []
                        for v in old:
                            if v is loop:
                                newl.extend(pre + [new])
                            elif isinstance(v, ast.AST):
                                newl.append(self_.visit(v))
                            else:
                                newl.append(v)
                        old[:] = newl
                    elif isinstance(old, ast.AST):
                        setattr(node, field, self_.visit(old))
                return node
        R().visit(tree)
    ast.fix_missing_locations(tree)
    text = ast.unparse(tree)
    sha = hashlib.sha256(open(src_file, 'rb').read()).hexdigest()
    header = '# extracted from %s (sha256 %s), function %s\n# cut loops: %s ; write sets: %s\n' % (
        src_file, sha, fn.__qualname__, sorted(specs), write_sets)
    if dump_dir:
        os.makedirs(dump_dir, exist_ok=True)
        with open(os.path.join(dump_dir, fn.__module__ + '.' + fn.__qualname__ + '.py'), 'w') as f:
            f.write(header + text + '\n')
    # annotations are inert: drop them so the def needs nothing but the module's own globals
    for n in ast.walk(fnode):
        if isinstance(n, ast.arg):
            n.annotation = None
    fnode.returns = None
    ns = dict(fn.__globals__)
    code = compile(tree, src_file + '<cut>', 'exec')
    exec(code, ns)
    g = ns[fnode.name]
    rt = Runtime(specs, write_sets, fn.__qualname__, iter_srcs, mutated, called)
    fn.__globals__[_GN[0]] = rt       # the only addition to the module namespace; code uses the LIVE module globals
    newf = types.FunctionType(g.__code__, fn.__globals__, fn.__name__, fn.__defaults__, fn.__closure__)
    newf.__kwdefaults__ = fn.__kwdefaults__
    newf.__qualname__ = fn.__qualname__
    newf.__cut_runtime__ = rt
    return newf, header + text, dict(write_sets=write_sets, n_loops=len(loops), sha256=sha)
