"""symrun.npf -- the `np` facade.

Structural numpy operations (einsum, indexing, broadcasting, reshape, sum, concatenate, eye, zeros ...)
are delegated to REAL numpy on dtype=object arrays whose cells are SymReal/SymBool/python numbers.
Only order / threshold / analytic operations are re-implemented as term builders.  Linear solves are
implicit definitions (fresh unknowns x with A.x = b assumed), with the result shape or the exception
taken from real numpy run on dummy arrays of the same shapes (shape oracle).
"""
import numpy as _np, operator, math, warnings, z3
from . import core as S
from .core import SymReal, SymBool, FIN, PINF, NINF, NAN


def _is_sym(x):
    return isinstance(x, (SymReal, SymBool))


def has_sym(a):
    if isinstance(a, _np.ndarray):
        if a.dtype != object:
            return False
        return any(_is_sym(x) for x in a.flat)
    if isinstance(a, (list, tuple)):
        return any(has_sym(x) for x in a)
    return _is_sym(a)


def _normbool(out):
    """object array of bool-likes -> bool ndarray if all concrete, else all-SymBool object array"""
    if not isinstance(out, _np.ndarray):
        return out
    if out.dtype != object:
        return out
    flat = list(out.flat)
    if all(isinstance(x, (bool, _np.bool_)) for x in flat):
        return _np.asarray(out, dtype=bool).view(SymArray)
    res = _np.empty(out.shape, dtype=object)
    rf = res.reshape(-1) if res.ndim else res
    for i, x in enumerate(flat):
        v = x if isinstance(x, SymBool) else SymBool(z3.BoolVal(bool(x)))
        if res.ndim:
            rf[i] = v
        else:
            res[()] = v
    return res.view(SymArray)


def _o(x):
    """scalar leaf -> 0-d object array (ufuncs refuse operands with __array_ufunc__ = None)"""
    if isinstance(x, (SymReal, SymBool)):
        a = _np.empty((), dtype=object)
        a[()] = x
        return a
    if isinstance(x, _np.ndarray):
        return _np.asarray(x)
    return x


def _cmp(op):
    f = _np.frompyfunc(op, 2, 1)

    def m(self, other):
        if isinstance(other, (str, type(None))):
            return NotImplemented
        if self.dtype != object and not has_sym(other) and not (isinstance(other, _np.ndarray) and other.dtype == object):
            return _wrap(op(_np.asarray(self), _np.asarray(other) if isinstance(other, _np.ndarray) else other))
        return _normbool(f(_np.asarray(self), _o(other)))
    return m


def _b(x):
    """cell -> python bool or SymBool"""
    if isinstance(x, (SymBool, bool)):
        return x
    if isinstance(x, _np.bool_):
        return bool(x)
    if isinstance(x, SymReal):
        return x != 0
    return bool(x)


def _np_div1(a, b):
    try:
        return a / b
    except ZeroDivisionError:
        a = S.as_real(a)
        if a.k == NAN or bool(a == 0):
            return SymReal(z3.RealVal(0), NAN)
        return SymReal(z3.RealVal(0), PINF if bool(a > 0) else NINF)


_npdiv = _np.frompyfunc(_np_div1, 2, 1)


def _objlike(o):
    return isinstance(o, (SymBool, SymReal)) or (isinstance(o, _np.ndarray) and o.dtype == object)


_and = _np.frompyfunc(lambda a, b: _b(a) & _b(b), 2, 1)
_or = _np.frompyfunc(lambda a, b: _b(a) | _b(b), 2, 1)
_not = _np.frompyfunc(lambda a: (not _b(a)) if isinstance(_b(a), bool) else ~_b(a), 1, 1)
_smax2 = _np.frompyfunc(lambda a, b: S.Max([a, b]), 2, 1)
_smin2 = _np.frompyfunc(lambda a, b: S.Min([a, b]), 2, 1)


def concretise_mask(m):
    """SymBool mask -> bool ndarray by forking every undecided cell."""
    out = _np.zeros(m.shape, dtype=bool)
    it = _np.nditer(out, flags=['multi_index'], op_flags=['writeonly'])
    for _ in it:
        out[it.multi_index] = bool(m[it.multi_index])
    return out


def _fix_index(idx):
    if isinstance(idx, tuple):
        return tuple(_fix_index(i) for i in idx)
    if isinstance(idx, _np.ndarray) and idx.dtype == object:
        flat = list(idx.flat)
        if any(isinstance(x, (SymBool, bool, _np.bool_)) for x in flat):
            return concretise_mask(_np.asarray(idx))
        if any(isinstance(x, SymReal) for x in flat):
            return _np.array([int(x) for x in flat]).reshape(idx.shape)
    if isinstance(idx, SymReal):
        return int(idx)
    if isinstance(idx, SymBool):
        return bool(idx)
    return idx


class SymArray(_np.ndarray):
    """dtype=object ndarray view with symbolic-aware order/boolean operations."""
    __array_priority__ = 100

    __lt__ = _cmp(operator.lt)
    __le__ = _cmp(operator.le)
    __gt__ = _cmp(operator.gt)
    __ge__ = _cmp(operator.ge)
    __eq__ = _cmp(operator.eq)
    __ne__ = _cmp(operator.ne)
    __hash__ = None

    # boolean algebra: object arrays may hold python bools next to SymBools; `~True` would be -2, so every
    # boolean operator is evaluated cell-wise with bool-aware functions and the result re-normalised
    def __invert__(self):
        if self.dtype != object:
            return _wrap(~_np.asarray(self))
        return _normbool(_not(_np.asarray(self)))

    def __and__(self, o):
        if self.dtype != object and not _objlike(o):
            return _wrap(_np.asarray(self) & (_np.asarray(o) if isinstance(o, _np.ndarray) else o))
        return _normbool(_and(_np.asarray(self), _o(o)))
    __rand__ = __and__

    def __or__(self, o):
        if self.dtype != object and not _objlike(o):
            return _wrap(_np.asarray(self) | (_np.asarray(o) if isinstance(o, _np.ndarray) else o))
        return _normbool(_or(_np.asarray(self), _o(o)))
    __ror__ = __or__

    def __iand__(self, o):
        self[...] = _np.asarray(self.__and__(o))
        return self

    def __ior__(self, o):
        self[...] = _np.asarray(self.__or__(o))
        return self

    # array division has numpy semantics (x/0 = +-inf, 0/0 = nan, no exception), unlike division of Python floats
    def __truediv__(self, o):
        if self.dtype != object and not _objlike(o):
            return _wrap(_np.asarray(self) / (_np.asarray(o) if isinstance(o, _np.ndarray) else o))
        return _wrap(_npdiv(_np.asarray(self), _o(o)))

    def __rtruediv__(self, o):
        if self.dtype != object and not _objlike(o):
            return _wrap((_np.asarray(o) if isinstance(o, _np.ndarray) else o) / _np.asarray(self))
        return _wrap(_npdiv(_o(o), _np.asarray(self)))

    def __getitem__(self, idx):
        return _np.ndarray.__getitem__(self, _fix_index(idx))

    def __setitem__(self, idx, val):
        if not self.flags.writeable:
            raise ValueError('assignment destination is read-only')
        return _np.ndarray.__setitem__(self, _fix_index(idx), val)

    def all(self, axis=None, out=None, keepdims=False, **kw):
        if self.dtype != object:
            return _wrap(_np.asarray(self).all(axis=axis, keepdims=keepdims))
        return _bool_reduce(self, _and, True, axis, keepdims)

    def any(self, axis=None, out=None, keepdims=False, **kw):
        if self.dtype != object:
            return _wrap(_np.asarray(self).any(axis=axis, keepdims=keepdims))
        return _bool_reduce(self, _or, False, axis, keepdims)

    def max(self, axis=None, out=None, keepdims=False, **kw):
        if self.dtype != object:
            return _wrap(_np.asarray(self).max(axis=axis, keepdims=keepdims))
        return _reduce(self, _smax2, axis, keepdims)

    def min(self, axis=None, out=None, keepdims=False, **kw):
        if self.dtype != object:
            return _wrap(_np.asarray(self).min(axis=axis, keepdims=keepdims))
        return _reduce(self, _smin2, axis, keepdims)

    def astype(self, dtype, *a, **kw):
        if self.dtype != object:
            if dtype in (float, _np.float64):
                return _np.asarray(self).astype(object).view(SymArray)
            return _wrap(_np.asarray(self).astype(dtype, *a, **kw))
        if dtype is bool or dtype == _np.bool_:
            flat = [x for x in self.flat]
            if any(isinstance(x, SymBool) for x in flat):
                # numpy's astype(bool) always yields dtype bool (code asserts on it): concretise by forking the undecided cells
                return _wrap(concretise_mask(_np.asarray(self)))
            if any(isinstance(x, SymReal) for x in flat):
                f = _np.frompyfunc(lambda x: (x != 0), 1, 1)
                return _normbool(f(_np.asarray(self)))
            return _np.asarray(self).astype(bool)
        if dtype in (float, _np.float64, object):
            return self.copy()
        if dtype in (int, _np.int64):
            return _np.array([int(x) for x in self.flat]).reshape(self.shape)
        return _np.ndarray.astype(self, dtype, *a, **kw)

    def argmax(self, axis=None, out=None, **kw):
        if self.dtype != object:
            return _wrap(_np.asarray(self).argmax(axis=axis))
        return _wrap(_argbest(self, axis, operator.gt))

    def argmin(self, axis=None, out=None, **kw):
        if self.dtype != object:
            return _wrap(_np.asarray(self).argmin(axis=axis))
        return _wrap(_argbest(self, axis, operator.lt))

    def copy(self, *a, **kw):
        return _np.ndarray.copy(self, *a, **kw).view(SymArray)

    def sum(self, *a, **kw):
        r = _np.asarray(self).sum(*a, **kw)
        return _wrap(r) if isinstance(r, _np.ndarray) and r.ndim > 0 else (r[()] if isinstance(r, _np.ndarray) else r)

    def dot(self, other):
        r = _np.asarray(self).dot(_np.asarray(other))
        return _wrap(r) if isinstance(r, _np.ndarray) and r.ndim > 0 else (r[()] if isinstance(r, _np.ndarray) else r)

    def __matmul__(self, other):
        r = _np.matmul(_np.asarray(self), _np.asarray(other))
        return _wrap(r) if isinstance(r, _np.ndarray) and r.ndim > 0 else (r[()] if isinstance(r, _np.ndarray) else r)

    def tolist(self):
        return _np.asarray(self).tolist()

    def inverse(self):
        return linalg.inv(self)


def _axes(a, axis):
    if axis is None:
        return tuple(range(a.ndim))
    if isinstance(axis, int):
        return (axis % a.ndim,)
    return tuple(ax % a.ndim for ax in axis)


def _reduce(a, uf, axis, keepdims):
    a0 = _np.asarray(a)
    axes = _axes(a0, axis)
    r = a0
    for ax in sorted(axes, reverse=True):
        r = uf.reduce(r, axis=ax, keepdims=True)
    if not keepdims:
        r = r.reshape([n for i, n in enumerate(a0.shape) if i not in axes]) if a0.ndim != len(axes) else r.reshape(())[()]
    return _wrap(r)


def _bool_reduce(a, uf, unit, axis, keepdims):
    a0 = _np.asarray(a)
    if a0.size == 0:
        r = _np.full([1 if i in _axes(a0, axis) else n for i, n in enumerate(a0.shape)], unit, dtype=object)
        axes = _axes(a0, axis)
    else:
        axes = _axes(a0, axis)
        r = a0
        if r.dtype != object:
            r = r.astype(object)
        f = _np.frompyfunc(lambda x: x if isinstance(x, (SymBool, bool, _np.bool_)) else (x != 0), 1, 1)
        r = f(r)
        for ax in sorted(axes, reverse=True):
            r = uf.reduce(r, axis=ax, keepdims=True)
    if not keepdims:
        if a0.ndim == len(axes):
            r = r.reshape(())[()]
            return bool(r) if isinstance(r, (bool, _np.bool_)) else r
        r = r.reshape([n for i, n in enumerate(a0.shape) if i not in axes])
    return _normbool(r)


def _argbest(a, axis, better):
    a0 = _np.asarray(a)
    if axis is None:
        flat = list(a0.flat)
        bi = 0
        for i in range(1, len(flat)):
            if better(flat[i], flat[bi]):   # forks; first best wins like numpy
                bi = i
        return bi
    ax = axis % a0.ndim
    moved = _np.moveaxis(a0, ax, -1)
    out = _np.zeros(moved.shape[:-1], dtype=int)
    for idx in _np.ndindex(*moved.shape[:-1]):
        row = moved[idx]
        bi = 0
        for i in range(1, len(row)):
            if better(row[i], row[bi]):
                bi = i
        out[idx] = bi
    return out


def _wrap(r):
    """every array the facade hands out is a SymArray view, so that indexing with symbolic masks always works"""
    if isinstance(r, _np.ndarray) and r.dtype.kind in 'Obiuf' and not isinstance(r, SymArray):
        return r.view(SymArray)
    return r


def _obj(a):
    """anything array-like -> ndarray (object dtype if it holds symbolic cells)"""
    if isinstance(a, _np.ndarray):
        return a
    if has_sym(a):
        def depth_shape(x):
            if isinstance(x, (list, tuple)):
                return (len(x),) + (depth_shape(x[0]) if len(x) else ())
            if isinstance(x, _np.ndarray):
                return x.shape
            return ()
        shp = depth_shape(a)
        out = _np.empty(shp, dtype=object)
        for idx in _np.ndindex(*shp):
            x = a
            for i in idx:
                x = x[i]
            out[idx] = x
        return out.view(SymArray)
    return _np.asarray(a)


def _numeral_matrix(A):
    """2-d array whose cells are all numerals -> list of lists of Fraction, else None"""
    from fractions import Fraction
    if A.ndim != 2:
        return None
    out = []
    for row in _np.asarray(A):
        r = []
        for x in row:
            v = S.concrete_value(x) if isinstance(x, SymReal) else x
            if v is None or isinstance(v, SymBool) or (isinstance(v, float) and (v != v or v in (float('inf'), float('-inf')))):
                return None
            r.append(Fraction(v) if not isinstance(v, float) else Fraction(v).limit_denominator(10 ** 9) if float(Fraction(v).limit_denominator(10 ** 9)) == v else Fraction(v))
        out.append(r)
    return out


def _exact_inverse(M):
    """Gauss-Jordan over the rationals; raises numpy's LinAlgError on singular input (as numpy does)"""
    from fractions import Fraction
    n = len(M)
    A = [list(row) + [Fraction(int(i == j)) for j in range(n)] for i, row in enumerate(M)]
    for c in range(n):
        piv = next((r for r in range(c, n) if A[r][c] != 0), None)
        if piv is None:
            raise _np.linalg.LinAlgError('Singular matrix')
        A[c], A[piv] = A[piv], A[c]
        pv = A[c][c]
        A[c] = [x / pv for x in A[c]]
        for r in range(n):
            if r != c and A[r][c] != 0:
                f = A[r][c]
                A[r] = [x - f * y for x, y in zip(A[r], A[c])]
    return [row[n:] for row in A]


class _Linalg:
    def solve(self, A, b):
        A, b = _obj(A), _obj(b)
        if not (has_sym(A) or has_sym(b)):
            return _np.linalg.solve(_np.asarray(A, dtype=float), _np.asarray(b, dtype=float))
        nm = _numeral_matrix(A) if (A.ndim == 2 and A.shape[0] == A.shape[1] and b.ndim in (1, 2)) else None
        if nm is not None:
            _np.linalg.solve(_np.zeros(A.shape) + _np.eye(A.shape[0]), _np.zeros(b.shape))   # shape oracle (raises as numpy)
            inv = _np.array([[SymReal.of(x) for x in row] for row in _exact_inverse(nm)], dtype=object)
            S.note('exact', what='np.linalg.solve', contract='exact rational elimination (numeral matrix)')
            return _wrap(_np.dot(inv, _np.asarray(b)))
        # shape oracle: real numpy decides result shape / exception on dummy well-conditioned input
        dA = _np.zeros(A.shape) + _np.eye(A.shape[-1]) if A.ndim >= 2 and A.shape[-1] == A.shape[-2] else _np.zeros(A.shape)
        ref = _np.linalg.solve(dA, _np.zeros(b.shape))     # raises exactly as numpy would
        S.note('external-assumed', what='np.linalg.solve', contract='A.x=b on nonsingular A')
        r = S.cur()
        x = _np.empty(ref.shape, dtype=object)
        base = r.fresh('solve')
        for idx in _np.ndindex(*ref.shape):
            x[idx] = SymReal(z3.Real('%s_%s' % (base, '_'.join(map(str, idx)))))
        x = x.view(SymArray)
        # defining equation, with numpy's own broadcasting rule for the result shape
        if b.ndim == A.ndim - 1:
            lhs = _np.einsum('...ij,...j->...i', _np.asarray(A), _np.asarray(x))
        else:
            lhs = _np.matmul(_np.asarray(A), _np.asarray(x))
        bb = _np.broadcast_to(_np.asarray(b), lhs.shape)
        for idx in _np.ndindex(*lhs.shape):
            S.assume(S.as_real(lhs[idx]) == S.as_real(bb[idx]))
        return x

    def inv(self, A):
        A = _obj(A)
        if not has_sym(A):
            return _np.linalg.inv(_np.asarray(A, dtype=float))
        n = A.shape[-1]
        ref = _np.linalg.inv(_np.zeros(A.shape) + _np.eye(n))
        nm = _numeral_matrix(A)
        if nm is not None:
            S.note('exact', what='np.linalg.inv', contract='exact rational elimination (numeral matrix)')
            return _np.array([[SymReal.of(x) for x in row] for row in _exact_inverse(nm)], dtype=object).view(SymArray)
        S.note('external-assumed', what='np.linalg.inv', contract='A.inv(A)=I on nonsingular A')
        r = S.cur()
        base = r.fresh('inv')
        x = _np.empty(ref.shape, dtype=object)
        for idx in _np.ndindex(*ref.shape):
            x[idx] = SymReal(z3.Real('%s_%s' % (base, '_'.join(map(str, idx)))))
        prod = _np.matmul(_np.asarray(A), x)
        eye = _np.broadcast_to(_np.eye(n), prod.shape)
        for idx in _np.ndindex(*prod.shape):
            S.assume(S.as_real(prod[idx]) == S.as_real(int(eye[idx])))
        prod2 = _np.matmul(x, _np.asarray(A))
        for idx in _np.ndindex(*prod2.shape):
            S.assume(S.as_real(prod2[idx]) == S.as_real(int(eye[idx])))
        return x.view(SymArray)

    def det(self, A):
        A = _obj(A)
        if not has_sym(A):
            return _np.linalg.det(_np.asarray(A, dtype=float))
        n = A.shape[-1]
        if A.ndim != 2:
            raise S.Unsupported('batched symbolic det')

        def det(M):
            if len(M) == 1:
                return M[0][0]
            t = 0
            for j in range(len(M)):
                minor = [row[:j] + row[j + 1:] for row in M[1:]]
                t = t + ((-1) ** j) * M[0][j] * det(minor)
            return t
        return det([list(row) for row in _np.asarray(A)])

    def __getattr__(self, n):
        return getattr(_np.linalg, n)


linalg = _Linalg()


def _isclose1(a, b, rtol, atol):
    a, b = S.as_real(a), S.as_real(b)
    if a.k != FIN or b.k != FIN:
        return (a.k == b.k) and a.k != NAN
    return abs(a - b) <= atol + rtol * abs(b)


def _log1(x):
    if isinstance(x, (SymBool,)):
        # log of a boolean availability flag: 0 or -inf -> fork
        return 0.0 if bool(x) else -math.inf
    if isinstance(x, SymReal):
        v = S.concrete_value(x)
        if v is None:
            raise S.Unsupported('log of a symbolic real')
        x = v
    x = float(x)
    return -math.inf if x == 0 else math.log(x)


class NumpyFacade:
    """Stands in for the `np` global of a repo module while a symbolic run is active."""
    ndarray = _np.ndarray
    newaxis = None
    inf = _np.inf
    nan = _np.nan
    pi = _np.pi
    linalg = linalg

    def __getattr__(self, name):
        import types
        obj = getattr(_np, name)
        if isinstance(obj, (type, types.ModuleType)) or not callable(obj):
            return obj

        def guarded(*a, **k):
            try:
                r = obj(*a, **k)
            except S.Unsupported:
                raise
            except Exception as e:
                # real numpy on object arrays failed: is it a genuine error (same call fails on float arrays of the same shapes) or a gap of the facade?
                def dummy(x):
                    if isinstance(x, _np.ndarray) and x.dtype == object:
                        return _np.zeros(x.shape)
                    if isinstance(x, (SymReal, SymBool)):
                        return 0.5
                    if isinstance(x, (list, tuple)):
                        return type(x)(dummy(y) for y in x)
                    return x
                involved = any(has_sym(x) or (isinstance(x, _np.ndarray) and x.dtype == object) for x in list(a) + list(k.values()))
                if involved:
                    try:
                        obj(*[dummy(x) for x in a], **{kk: dummy(v) for kk, v in k.items()})
                    except Exception:
                        raise e
                    raise S.Unsupported('np.%s is not modelled for symbolic arrays (%s: %s)' % (name, type(e).__name__, e))
                raise
            return _wrap(r) if isinstance(r, _np.ndarray) else r
        return guarded

    # -- creation -------------------------------------------------------------------------------
    def zeros(self, shape, dtype=float, **kw):
        if dtype in (bool, _np.bool_, int, _np.int64, _np.intp) or (isinstance(dtype, _np.dtype) and dtype.kind in 'biu'):
            return _wrap(_np.zeros(shape, dtype=dtype))
        a = _np.empty(shape, dtype=object)
        a.fill(0.0)
        return a.view(SymArray)

    def ones(self, shape, dtype=float, **kw):
        if dtype in (bool, _np.bool_, int, _np.int64):
            return _wrap(_np.ones(shape, dtype=dtype))
        a = _np.empty(shape, dtype=object)
        a.fill(1.0)
        return a.view(SymArray)

    def empty(self, shape, dtype=float, **kw):
        return self.zeros(shape, dtype)

    def full(self, shape, v, dtype=None, **kw):
        a = _np.empty(shape, dtype=object)
        a.fill(v)
        return a.view(SymArray)

    def zeros_like(self, a, dtype=None, **kw):
        return self.zeros(_np.shape(a), dtype or (a.dtype if isinstance(a, _np.ndarray) and a.dtype != object else float))

    def ones_like(self, a, dtype=None, **kw):
        return self.ones(_np.shape(a), dtype or (a.dtype if isinstance(a, _np.ndarray) and a.dtype != object else float))

    def eye(self, n, *a, **kw):
        return _np.eye(n, *a, **kw).astype(object).view(SymArray)

    def array(self, obj, dtype=None, **kw):
        if has_sym(obj):
            if dtype is bool or dtype == _np.bool_:
                o = _obj(obj)
                return _normbool(_np.frompyfunc(lambda x: x if isinstance(x, (SymBool, bool, _np.bool_)) else (x != 0), 1, 1)(_np.asarray(o)))
            o = _obj(obj)
            return o.copy().view(SymArray) if isinstance(obj, _np.ndarray) else o
        if dtype is None or dtype is float or dtype == _np.float64:
            r = _np.array(obj, **kw) if dtype is None else _np.array(obj, dtype=dtype, **kw)
            if isinstance(r, _np.ndarray) and r.dtype.kind == 'f':
                return r.astype(object).view(SymArray)
            return _wrap(r)
        return _wrap(_np.array(obj, dtype=dtype, **kw))

    def asarray(self, obj, dtype=None, **kw):
        if isinstance(obj, _np.ndarray) and dtype is None:
            return obj
        return self.array(obj, dtype=dtype)

    # -- structure ------------------------------------------------------------------------------
    def einsum(self, spec, *ops, out=None, **kw):
        ops2 = [(_np.asarray(o).astype(object) if has_sym(ops) else _np.asarray(o)) for o in ops]
        if has_sym(ops) or (out is not None and isinstance(out, _np.ndarray) and out.dtype == object):
            ops2 = [_np.asarray(o).astype(object) for o in ops]
            r = _np.einsum(spec, *ops2)
            r = _np.asarray(r, dtype=object)
            if out is not None:
                out[...] = r
                return out
            return _wrap(r)
        if out is not None and not (isinstance(out, _np.ndarray) and out.dtype == object):
            return _np.einsum(spec, *ops, out=out, **kw)
        return _wrap(_np.einsum(spec, *ops, **kw))

    def diagonal(self, a, *args, **kw):
        return _wrap(_np.diagonal(a, *args, **kw))

    def concatenate(self, *a, **kw):
        return _wrap(_np.concatenate(*a, **kw))

    def stack(self, *a, **kw):
        return _wrap(_np.stack(*a, **kw))

    def block(self, *a, **kw):
        return _wrap(_np.block(*a, **kw))

    def dot(self, a, b):
        return _wrap(_np.dot(_np.asarray(a), _np.asarray(b)))

    def matmul(self, a, b):
        return _wrap(_np.matmul(_np.asarray(a), _np.asarray(b)))

    def broadcast_to(self, a, shape):
        return _wrap(_np.broadcast_to(a, shape))

    def sum(self, a, axis=None, **kw):
        a = _obj(a)
        return _wrap(_np.sum(_np.asarray(a), axis=axis, **kw))

    def cumsum(self, a, *args, **kw):
        return _wrap(_np.cumsum(_np.asarray(_obj(a)), *args, **kw))

    # -- order / threshold ----------------------------------------------------------------------
    def max(self, a, axis=None, keepdims=False, **kw):
        a = _obj(a)
        if a.dtype != object:
            return _np.max(a, axis=axis, keepdims=keepdims)
        return _reduce(a, _smax2, axis, keepdims)
    amax = max

    def min(self, a, axis=None, keepdims=False, **kw):
        a = _obj(a)
        if a.dtype != object:
            return _np.min(a, axis=axis, keepdims=keepdims)
        return _reduce(a, _smin2, axis, keepdims)
    amin = min

    def maximum(self, a, b):
        if has_sym(a) or has_sym(b):
            return _wrap(_smax2(_o(a), _o(b))) if isinstance(a, _np.ndarray) or isinstance(b, _np.ndarray) else S.Max([a, b])
        return _np.maximum(a, b)

    def minimum(self, a, b):
        if has_sym(a) or has_sym(b):
            return _wrap(_smin2(_o(a), _o(b))) if isinstance(a, _np.ndarray) or isinstance(b, _np.ndarray) else S.Min([a, b])
        return _np.minimum(a, b)

    def argmax(self, a, axis=None, **kw):
        a = _obj(a)
        if a.dtype != object:
            return _wrap(_np.argmax(a, axis=axis))
        return _wrap(_argbest(a, axis, operator.gt))

    def argmin(self, a, axis=None, **kw):
        a = _obj(a)
        if a.dtype != object:
            return _wrap(_np.argmin(a, axis=axis))
        return _wrap(_argbest(a, axis, operator.lt))

    def abs(self, a):
        if isinstance(a, _np.ndarray):
            return _wrap(_np.frompyfunc(abs, 1, 1)(a)) if a.dtype == object else _np.abs(a)
        return abs(a)
    absolute = abs

    def isclose(self, a, b, rtol=1e-05, atol=1e-08, equal_nan=False):
        if not (has_sym(a) or has_sym(b)) and not any(isinstance(x, _np.ndarray) and x.dtype == object for x in (a, b)):
            return _np.isclose(a, b, rtol=rtol, atol=atol)
        if not isinstance(a, _np.ndarray) and not isinstance(b, _np.ndarray):
            return _isclose1(a, b, rtol, atol)
        f = _np.frompyfunc(lambda x, y: _isclose1(x, y, rtol, atol), 2, 1)
        r = f(_o(a), _o(b))
        if isinstance(r, _np.ndarray):
            return _normbool(r)
        return r

    def allclose(self, a, b, rtol=1e-05, atol=1e-08, **kw):
        r = self.isclose(a, b, rtol=rtol, atol=atol)
        if isinstance(r, _np.ndarray):
            return bool(r.all())
        return bool(r)

    def all(self, a, axis=None, keepdims=False, **kw):
        a = _obj(a)
        if a.dtype != object:
            return _np.all(a, axis=axis, keepdims=keepdims)
        return _bool_reduce(a, _and, True, axis, keepdims)

    def any(self, a, axis=None, keepdims=False, **kw):
        a = _obj(a)
        if a.dtype != object:
            return _np.any(a, axis=axis, keepdims=keepdims)
        return _bool_reduce(a, _or, False, axis, keepdims)

    def where(self, c, a=None, b=None):
        if a is None:
            c = _obj(c)
            if c.dtype == object:
                c = concretise_mask(c)
            return _np.where(c)
        c = _obj(c)
        if c.dtype == object or has_sym(a) or has_sym(b):
            f = _np.frompyfunc(lambda cc, x, y: (x if cc else y) if isinstance(cc, (bool, _np.bool_)) else S.If(cc, x, y), 3, 1)
            return _wrap(f(c, _o(a), _o(b)))
        return _np.where(c, a, b)

    def log(self, a):
        with warnings.catch_warnings():
            warnings.simplefilter('ignore')
            if isinstance(a, _np.ndarray):
                if a.dtype != object:
                    return _np.log(a)
                return _np.frompyfunc(_log1, 1, 1)(a).view(SymArray)
            return _log1(a)

    def exp(self, a):
        if has_sym(a):
            raise S.Unsupported('exp of a symbolic real')
        return _np.exp(_np.asarray(a, dtype=float)) if isinstance(a, _np.ndarray) else _np.exp(a)

    def isinf(self, a):
        if isinstance(a, _np.ndarray) and a.dtype == object:
            return _np.frompyfunc(lambda x: S.as_real(x).k in (PINF, NINF), 1, 1)(a).astype(bool)
        if isinstance(a, SymReal):
            return a.k in (PINF, NINF)
        return _np.isinf(a)

    def isnan(self, a):
        if isinstance(a, _np.ndarray) and a.dtype == object:
            return _np.frompyfunc(lambda x: S.as_real(x).k == NAN, 1, 1)(a).astype(bool)
        if isinstance(a, SymReal):
            return a.k == NAN
        return _np.isnan(a)

    def isfinite(self, a):
        if isinstance(a, _np.ndarray) and a.dtype == object:
            return _np.frompyfunc(lambda x: S.as_real(x).k == FIN, 1, 1)(a).astype(bool)
        if isinstance(a, SymReal):
            return a.k == FIN
        return _np.isfinite(a)

    def around(self, a, decimals=0, **kw):
        S.note('round')
        if has_sym(a):
            return a       # identity on mathematical reals (stated assumption)
        return _np.around(a, decimals)
    round = around
    round_ = around

    def power(self, a, b):
        if has_sym(a) or has_sym(b):
            f = _np.frompyfunc(lambda x, y: x ** y, 2, 1)
            r = f(_o(a), _o(b))
            return _wrap(r) if isinstance(r, _np.ndarray) and r.ndim > 0 else (r[()] if isinstance(r, _np.ndarray) else r)
        return _np.power(a, b)

    def triu(self, a, *args, **kw):
        return _wrap(_np.triu(_np.asarray(a), *args, **kw))

    def tril(self, a, *args, **kw):
        return _wrap(_np.tril(_np.asarray(a), *args, **kw))

    def mean(self, a, axis=None, **kw):
        a = _obj(a)
        if a.dtype != object:
            return _np.mean(a, axis=axis, **kw)
        if axis is None:
            return _np.asarray(a).sum() / a.size
        return _wrap(_np.asarray(a).sum(axis=axis) / a.shape[axis])

    def logical_and(self, a, b):
        return _normbool(_and(_o(_obj(a)), _o(_obj(b)))) if (has_sym(a) or has_sym(b)) else _np.logical_and(a, b)

    def logical_or(self, a, b):
        return _normbool(_or(_o(_obj(a)), _o(_obj(b)))) if (has_sym(a) or has_sym(b)) else _np.logical_or(a, b)

    def logical_not(self, a):
        return ~a if has_sym(a) else _np.logical_not(a)


NP = NumpyFacade()
NP.newaxis = _np.newaxis


def sym_array(a):
    """harness helper: nested lists of leaves -> SymArray"""
    a = _obj(a)
    if a.dtype != object:
        a = a.astype(object)
    return a.view(SymArray)
