"""symrun.driver -- runs the obligations of one property, replays counterexamples, writes evidence.

A property module (props/Cxx.py) exposes
    FUNCTIONS   : list of repo functions under contract (dotted names)
    ASSUMPTIONS : list of strings (unchecked assumptions / trusted base)
    LEMMAS      : list of strings (mathematical lemmas linking contracts to the property wording)
    tasks(tier, seed) -> list[Task]
    SENTINELS   : optional list[Sentinel]

Exit codes: 0 held / 1 violation (VIOLATION line) / 2 undecided / 3 checker error or vacuity.
"""
import sys, os, json, time, importlib, hashlib, traceback, multiprocessing, inspect, contextlib, textwrap, re
from . import core as S

REPO = os.path.realpath(os.environ.get('VERIF_REPO', '/repo'))

ROOT = os.path.dirname(os.path.dirname(os.path.abspath(__file__)))


class Task:
    """One unit of work.
    kind 'sym' : harness(*args) explored symbolically (tier 'U' or 'B'); counterexamples replayed with
                 the same harness in concrete mode on the real code.
    kind 'rt'  : fn(*args) -> list of dict(name=, ok=, detail=, witness=) evaluated on concrete inputs (tier 'R').
    """

    def __init__(self, name, harness, args=(), tier='B', kind='sym', max_paths=3000, deadline_s=240,
                 note='', expect_fail=(), functions=(), fork_timeout_ms=4000, vc_timeout_ms=40000):
        # budgets are wall-clock and sized for a machine whose 16 cores are all busy (observed: a 4 s query needs > 10 s there); a verdict must not flip with load
        self.name = name
        self.harness = harness
        self.args = tuple(args)
        self.tier = tier
        self.kind = kind
        self.max_paths = max_paths
        self.deadline_s = deadline_s
        self.note = note
        self.expect_fail = tuple(expect_fail)   # check names that MUST be refuted (vacuity guard)
        self.functions = tuple(functions)
        self.fork_timeout_ms = fork_timeout_ms
        self.vc_timeout_ms = vc_timeout_ms


class Sentinel:
    """A deliberate mutation of a real function's source, applied in memory; at least one obligation of
    the named tasks must fail under it, otherwise the contract is too weak (exit 3)."""

    def __init__(self, name, module, old, new, task_names, count=1):
        self.name = name
        self.module = module
        self.old = old
        self.new = new
        self.task_names = tuple(task_names)
        self.count = count


_TASKS = []


class _TaskTimeout(BaseException):
    pass


def _alarm(signum, frame):
    raise _TaskTimeout()


def _run_task(i):
    import signal
    t = _TASKS[i]
    t0 = time.time()
    try:
        signal.signal(signal.SIGALRM, _alarm)
        signal.alarm(int(t.deadline_s) + 120)
    except Exception:
        pass
    try:
        return _run_task_inner(i, t, t0)
    except _TaskTimeout:
        return i, dict(paths=0, infeasible=0, checks={}, errors=['task timed out after %ds (hang in native code or solver); undecided' % (int(t.deadline_s) + 120)],
                       solver_s=0, queries=0, truncated=True, backends={}, external={}, wall_s=round(time.time() - t0, 3))
    finally:
        try:
            signal.alarm(0)
        except Exception:
            pass


class CallTimeLimit(Exception):
    pass


@contextlib.contextmanager
def time_limit(seconds):
    """run-time tier helper: bound ONE call into the repository by wall-clock time (nested inside the per-task watchdog, whose alarm is restored).
    A call that needs far longer than the same call on a fresh object is reported by the harness as a failed clause of its own -- with the measured
    bound in its name -- never as a generic violation."""
    import signal

    def h(signum, frame):
        raise CallTimeLimit()
    old_h = signal.signal(signal.SIGALRM, h)
    remaining = signal.alarm(0)
    t0 = time.time()
    signal.alarm(int(seconds))
    try:
        yield
    finally:
        signal.alarm(0)
        signal.signal(signal.SIGALRM, old_h)
        if remaining:
            signal.alarm(max(1, int(remaining - (time.time() - t0))))


def _rt_records(t):
    """records of a run-time task; an exception that escapes from REPOSITORY code (innermost frame under /repo) on a well-formed input is a failed
    obligation, not a checker error -- exceptions raised by the checker's own code stay engine errors"""
    from . import frame as _frame
    mods = lambda: [m for n, m in list(sys.modules.items()) if (n == 'msdm' or n.startswith('msdm.')) and m is not None and not n.startswith('msdm.tests')]
    before = _frame.snapshot(mods())
    t_start = time.time()
    history = ''
    try:
        yield from t.harness(*t.args)
        # frame condition over state that outlives every call.  A module-level or class-level container of the library that the run has changed is not by
        # itself a violation of any property (a value-keyed memo or a warn-once registry is harmless); it is the TRIGGER for a longer history: the same
        # harness is run again in the same process, with a collection in between so that new models may live at the addresses of dead ones, and every
        # clause of every re-run is judged like the first one.  A violation is then a real clause failing on the real code after a legal sequence of calls.
        ch = [c for c in _frame.changes(before, _frame.snapshot(mods())) if ' changed: ' in c]      # containers of modules first imported during the run are not judged
        yield dict(name='rt:frame:no-module-level-or-class-level-state-of-the-library-is-left-behind(else:the-whole-task-is-re-run-on-top-of-that-state)', ok=True, witness=dict(task=t.name))
        if ch:
            import gc
            t1 = time.time() - t_start
            reruns = 0
            while reruns < 4 and (time.time() - t_start) + 1.5 * t1 + 5 < 0.8 * t.deadline_s:
                reruns += 1
                history = '[re-run %d of the task in the same process; state retained by the library between calls: %s] ' % (reruns, '; '.join(ch)[:400])
                gc.collect()
                for rec in t.harness(*t.args):
                    if not rec.get('ok'):
                        rec = dict(rec, detail=history + (rec.get('detail') or ''))
                    yield rec
            yield dict(name='rt:frame:state-retained-at-module-or-class-level-changes-no-clause-of-%d-re-runs-of-the-task-in-the-same-process' % reruns, ok=True,
                       witness=dict(task=t.name, retained='; '.join(ch)[:400]))
            sys.stderr.write('FRAME-NOTE task=%s: the library retained module-level/class-level state (%s); task re-run %d time(s) on top of it\n' % (t.name, '; '.join(ch)[:300], reruns))
    except (S.Unsupported, _TaskTimeout, KeyboardInterrupt, MemoryError):
        raise
    except Exception as e:
        # whose call failed: walk from the innermost frame outwards past third-party / standard-library frames; the first frame that belongs to the
        # repository (the library called numpy/scipy/torch with bad operands) or to the checker (the harness did) decides
        tb = traceback.extract_tb(e.__traceback__)
        owner = None
        for fr in reversed(tb):
            fn = os.path.realpath(fr.filename)
            if fn.startswith(REPO + '/'):
                owner = 'repo'
                break
            if fn.startswith(os.path.realpath(ROOT) + '/'):
                owner = 'checker'
                break
        if owner == 'repo':
            yield dict(name='rt:no-unexpected-exception-in-repository-code', ok=False, witness=dict(args=repr(t.args)[:300]),
                       detail=history + '%s: %s\n%s' % (type(e).__name__, e, ''.join(traceback.format_exception(type(e), e, e.__traceback__, limit=-6))))
        else:
            raise


def _run_task_inner(i, t, t0):
    try:
        if t.kind == 'sym':
            res = S.explore(t.harness, t.args, max_paths=t.max_paths, deadline_s=t.deadline_s,
                            fork_timeout_ms=t.fork_timeout_ms, vc_timeout_ms=t.vc_timeout_ms, keep_events=True)
            out = res.summary()
            ev = {}
            for e in res.events:
                if e.get('kind') == 'external-assumed':
                    ev[e.get('what')] = e.get('contract')
            out['external'] = ev
            out.pop('events', None)
        else:
            checks = {}
            n = 0
            for rec in _rt_records(t):
                n += 1
                d = checks.setdefault(rec['name'], dict(proved=0, failed=0, unknown=0, witnesses=[]))
                if rec['ok']:
                    d['proved'] += 1
                else:
                    d['failed'] += 1
                    if len(d['witnesses']) < 3:
                        d['witnesses'].append(dict(model=rec.get('witness'), detail=rec.get('detail'), robust=True))
            out = dict(paths=n, infeasible=0, checks=checks, errors=[], solver_s=0.0, queries=0, truncated=False,
                       backends={'cpython': n}, external={})
        out['wall_s'] = round(time.time() - t0, 3)
        return i, out
    except _TaskTimeout:
        raise
    except BaseException as e:
        return i, dict(paths=0, infeasible=0, checks={}, errors=['task crashed: %s: %s\n%s' % (
            type(e).__name__, e, traceback.format_exc(limit=-8))], solver_s=0, queries=0, truncated=False,
            backends={}, external={}, wall_s=round(time.time() - t0, 3))


def run_tasks(tasks, procs=None):
    global _TASKS
    _TASKS = tasks
    procs = procs or min(16, max(1, len(tasks)))
    if len(tasks) == 0:
        return []
    results = [None] * len(tasks)
    if procs == 1 or os.environ.get('SYMRUN_SERIAL'):
        for i in range(len(tasks)):
            results[i] = _run_task(i)[1]
        return results
    # one forked process per task, at most `procs` at a time.  A worker that dies (killed by the kernel for memory, a crash in native code) or overruns
    # its hard limit costs ITS task only ("undecided"); a Pool would wait for the lost result forever.
    ctx = multiprocessing.get_context('fork')
    pending = list(range(len(tasks)))
    active = {}                      # i -> (process, parent_conn, t_start)

    def child(i, conn):
        try:
            import resource
            lim = int(os.environ.get('SYMRUN_MEM_GB', '8')) << 30
            resource.setrlimit(resource.RLIMIT_AS, (lim, lim))      # a run-away allocation raises MemoryError in the worker instead of waking the OOM killer
        except Exception:
            pass
        try:
            out = _run_task(i)[1]
        except BaseException as e:
            out = _lost(tasks[i], 'worker failed: %s: %s' % (type(e).__name__, str(e)[:300]))
        try:
            conn.send(out)
        except Exception as e:
            try:
                conn.send(_lost(tasks[i], 'result could not be sent: %s' % type(e).__name__))
            except Exception:
                pass
        finally:
            conn.close()
            os._exit(0)
    while pending or active:
        while pending and len(active) < procs:
            i = pending.pop(0)
            pc, cc = ctx.Pipe(duplex=False)
            pr = ctx.Process(target=child, args=(i, cc), daemon=True)
            pr.start()
            cc.close()
            active[i] = (pr, pc, time.time())
        done = []
        for i, (pr, pc, t0) in active.items():
            if pc.poll(0):
                try:
                    results[i] = pc.recv()
                except (EOFError, OSError):
                    results[i] = _lost(tasks[i], 'worker died without a result (exit code %s); undecided' % pr.exitcode)
                done.append(i)
            elif not pr.is_alive():
                results[i] = _lost(tasks[i], 'worker died without a result (exit code %s: killed or crashed in native code); undecided' % pr.exitcode)
                done.append(i)
            elif time.time() - t0 > tasks[i].deadline_s + 300:
                pr.kill()
                results[i] = _lost(tasks[i], 'task timed out after %ds (hard limit); undecided' % (int(tasks[i].deadline_s) + 300))
                done.append(i)
        for i in done:
            pr, pc, _ = active.pop(i)
            pc.close()
            pr.join(timeout=5)
        if not done:
            time.sleep(0.02)
    return results


def _lost(t, msg):
    return dict(paths=0, infeasible=0, checks={}, errors=[msg], solver_s=0, queries=0, truncated=True, backends={}, external={}, wall_s=0.0)


# ---------------------------------------------------------------------------------------------------
def load_known():
    p = os.path.join(ROOT, 'known_findings.json')
    if not os.path.exists(p):
        return []
    return json.load(open(p)).get('findings', [])


def match_known(known, prop, obligation, task_name, detail):
    for k in known:
        if k.get('property') != prop or k.get('status') != 'open':
            continue
        if 'obligation_pattern' in k:
            if not re.search(k['obligation_pattern'], obligation):
                continue
        elif k.get('obligation') != obligation:
            continue
        pat = k.get('task_pattern')
        if pat and not re.search(pat, task_name):
            continue
        dp = k.get('detail_pattern')
        if dp and not re.search(dp, detail or ''):
            continue
        return k
    return None


def replay_task(task, model):
    if task.kind != 'sym':
        return None
    return S.run_concrete(task.harness, task.args, model)


def concrete_fallback(task, seed, n=8):
    """the symbolic engine could not execute the current text of a function (an operation its numpy / torch facades do not cover), which says nothing
    about the code: the same harness -- same contract clauses -- is run NATIVELY on sampled inputs instead.  A clause that fails natively is a violation
    with its input; otherwise the task is reported as degraded: its obligations are not discharged, and nothing is alarmed."""
    import random
    ran, bad = 0, None
    for k in range(4 * n):
        try:
            rp = S.run_concrete(task.harness, task.args, None, rng=random.Random(seed * 7919 + k))
        except BaseException as e:
            return ran, dict(status='fallback crashed', error='%s: %s' % (type(e).__name__, e)), None
        if rp.get('status') != 'ran':
            continue
        ran += 1
        failed = [x for x in rp['checks'] if x['status'] == 'failed' and x['name'] not in task.expect_fail]
        if failed:
            return ran, rp, failed[0]
        if ran >= n:
            break
    return ran, None, None


def file_sha(path):
    try:
        return hashlib.sha256(open(path, 'rb').read()).hexdigest()[:16]
    except Exception:
        return None


@contextlib.contextmanager
def apply_sentinel(sent):
    """Re-executes the mutated module source's definitions of the functions that changed, in place."""
    mod = importlib.import_module(sent.module)
    path = inspect.getsourcefile(mod)
    src = open(path).read()
    if src.count(sent.old) != sent.count:
        yield False
        return
    msrc = src.replace(sent.old, sent.new)
    ns = dict(mod.__dict__)
    # the mutant's text lives in a real file: loop cutting re-reads function sources through inspect/linecache and must see the MUTATED text
    mdir = os.path.join(ROOT, 'evidence', 'mutants')
    os.makedirs(mdir, exist_ok=True)
    mpath = os.path.join(mdir, '%s.%s.py' % (sent.module, hashlib.sha256(sent.name.encode()).hexdigest()[:10]))
    with open(mpath, 'w') as f:
        f.write(msrc)
    import linecache
    linecache.checkcache(mpath)
    ns.pop('__loader__', None)
    ns.pop('__spec__', None)
    try:
        exec(compile(msrc, mpath, 'exec'), ns)
    except Exception:
        yield False
        return
    saved = {}
    for k, v in ns.items():
        old = mod.__dict__.get(k)
        if inspect.isfunction(v) and inspect.isfunction(old) and v.__code__.co_code != old.__code__.co_code or \
           inspect.isfunction(v) and inspect.isfunction(old) and v.__code__.co_consts != old.__code__.co_consts:
            saved[k] = old
            mod.__dict__[k] = v
        elif inspect.isclass(v) and inspect.isclass(old) and v.__module__ == mod.__name__:
            for mk, mv in list(vars(v).items()):
                ov = vars(old).get(mk)
                f1 = getattr(mv, '__func__', getattr(mv, 'fget', mv))
                f0 = getattr(ov, '__func__', getattr(ov, 'fget', ov))
                f1 = getattr(f1, '__wrapped__', f1)
                f0 = getattr(f0, '__wrapped__', f0)
                if inspect.isfunction(f1) and inspect.isfunction(f0) and (
                        f1.__code__.co_code != f0.__code__.co_code or f1.__code__.co_consts != f0.__code__.co_consts):
                    saved[(old, mk)] = ov
                    # rebind function globals to the live module so facade patching still applies
                    setattr(old, mk, _rebind(mv, mod))
    for k in list(saved):
        if isinstance(k, str):
            mod.__dict__[k] = _rebind(mod.__dict__[k], mod)
    try:
        yield True
    finally:
        for k, v in saved.items():
            if isinstance(k, str):
                mod.__dict__[k] = v
            else:
                setattr(k[0], k[1], v)


def _genuine_failure(name, c):
    """a sentinel counts as killed only by a failed contract clause, or by an exception raised inside the (mutated) repository code --
    never by an engine error of the checker itself"""
    if name != 'no-unexpected-exception':
        return True
    for w in c.get('witnesses', []):
        files = re.findall(r'File "([^"]+)"', str(w.get('detail', '')))
        # raised inside the mutated code, or at a call from the harness into it (e.g. a TypeError at call binding); an exception raised by the
        # checker's own engine (symrun/) is an engine error, not a kill
        if files and '/symrun/' not in files[-1]:
            return True
    return False


def _rebind(obj, mod):
    import types

    def rb(f):
        g = types.FunctionType(f.__code__, mod.__dict__, f.__name__, f.__defaults__, f.__closure__)
        g.__kwdefaults__ = f.__kwdefaults__
        g.__dict__.update(f.__dict__)
        g.__qualname__ = f.__qualname__
        return g
    def redecorate(wrapper):
        """msdm's own caching decorators (functools.wraps wrappers): rebuild the wrapper around the inner function rebound to the LIVE module globals,
        so that facades patched into the module also reach decorated methods of a mutant"""
        inner = getattr(wrapper, '__wrapped__', None)
        code_name = getattr(getattr(wrapper, '__code__', None), 'co_qualname', '') or ''
        if inner is None or not inspect.isfunction(inner):
            return None
        try:
            from msdm.core.utils import funcutils
        except Exception:
            return None
        if 'method_cache' in code_name:
            return funcutils.method_cache(rb(inner))
        if 'cached_property' in code_name:
            return funcutils.cached_property(rb(inner))
        return None
    if inspect.isfunction(obj):
        if hasattr(obj, '__wrapped__'):
            return redecorate(obj) or obj
        return rb(obj)
    if isinstance(obj, staticmethod):
        return staticmethod(rb(obj.__func__))
    if isinstance(obj, classmethod):
        return classmethod(rb(obj.__func__))
    if isinstance(obj, property):
        f = obj.fget
        if hasattr(f, '__wrapped__'):
            r = redecorate(f)          # cached_property returns a property itself
            return r if r is not None else obj
        return property(rb(f), obj.fset, obj.fdel)
    return obj


# ---------------------------------------------------------------------------------------------------
def main(argv=None):
    argv = list(sys.argv[1:] if argv is None else argv)
    if argv and argv[0] == 'replay':
        return replay_main(argv[1:])
    prop = argv[0]
    tier = 'quick'
    only = None
    no_sentinels = False
    i = 1
    while i < len(argv):
        if argv[i] == '--tier':
            tier = argv[i + 1]
            i += 2
        elif argv[i] == '--only':
            only = argv[i + 1]
            i += 2
        elif argv[i] == '--no-sentinels':
            no_sentinels = True
            i += 1
        else:
            i += 1
    tier = os.environ.get('VERIF_TIER', tier)
    seed = int(os.environ.get('VERIF_SEED', '0'))
    t0 = time.time()
    sys.path.insert(0, ROOT)
    os.makedirs(os.path.join(ROOT, 'evidence'), exist_ok=True)
    rdir = os.path.join(ROOT, 'replays', prop)
    os.makedirs(rdir, exist_ok=True)
    for f in os.listdir(rdir):
        if f.endswith('.json'):
            os.unlink(os.path.join(rdir, f))
    try:
        mod = importlib.import_module('props.' + prop)
        tasks = mod.tasks(tier, seed)
    except Exception:
        traceback.print_exc()
        print('CHECKER-ERROR property=%s could not build tasks' % prop)
        return 3
    if only:
        tasks = [t for t in tasks if re.search(only, t.name)]
    results = run_tasks(tasks)
    known = load_known()

    violations, known_hits, undecided, errors, vacuity, unbound, degraded = [], [], [], [], [], [], []
    n_obl = {'U': 0, 'B': 0, 'R': 0}
    n_dis = {'U': 0, 'B': 0, 'R': 0}
    n_paths = 0
    solver_s = 0.0
    queries = 0
    backends = {}
    external = {}
    samples = []
    rt_cases = 0
    for t, r in zip(tasks, results):
        if os.environ.get('SYMRUN_VERBOSE'):
            print('  task %-55s paths=%-5d wall=%6.1fs solver=%6.1fs %s' % (t.name, r['paths'], r.get('wall_s', 0), r.get('solver_s', 0),
                  ' '.join('%s:%d/%d/%d' % (k[-28:], v['proved'], v['failed'], v['unknown']) for k, v in r['checks'].items())))
        n_paths += r['paths']
        solver_s += r.get('solver_s', 0)
        queries += r.get('queries', 0)
        for k, v in r.get('backends', {}).items():
            backends[k] = backends.get(k, 0) + v
        external.update(r.get('external', {}))
        if t.kind == 'rt':
            rt_cases += r['paths']
        engine_limited = None
        if t.kind == 'sym' and r['errors'] and all(str(e).startswith(('Unsupported:', 'exploration truncated')) for e in r['errors']):
            # the engine could not execute the current source (operation outside its facades), or could not finish the paths within the budget sized for
            # the pinned source: every clause on every explored path is still judged below; the unexplored rest is sampled natively
            engine_limited = str(r['errors'][0])[:300]
            r = dict(r, errors=[])
            n_obl[t.tier] += 1
        if r['errors'] and all(str(e).startswith('Unbound:') for e in r['errors']):
            # the loop CONTRACT of a cut-loop task no longer binds to the function's current text (renamed loop-carried local, rewritten loop header,
            # new loop variable).  That is not evidence about the code: the obligation is counted as NOT discharged and reported, and the verdict is
            # left to the tasks that execute the same function whole (bounded skeletons, run-time tier) and do not depend on its local names.
            unbound.append('%s: %s' % (t.name, r['errors'][0]))
            n_obl[t.tier] += 1
        else:
            for e in r['errors']:
                errors.append('%s: %s' % (t.name, e))
        if r['paths'] - r['infeasible'] <= 0 and not r['errors']:
            vacuity.append('%s: no feasible path (contradictory precondition?)' % t.name)
        for cname, c in r['checks'].items():
            oid = '%s' % cname
            if cname in t.expect_fail:
                if c['failed'] == 0:
                    vacuity.append('%s: must-fail clause %s was not refuted' % (t.name, cname))
                continue
            n_obl[t.tier] += 1
            if c['failed'] == 0 and c['unknown'] == 0:
                n_dis[t.tier] += 1
            if c['unknown']:
                undecided.append('%s: %s (%d paths unknown)' % (t.name, cname, c['unknown']))
            if c['failed']:
                w = c['witnesses'][0]
                rp = None
                confirmed = False
                if t.kind == 'sym' and w.get('model') is not None:
                    try:
                        rp = replay_task(t, w['model'])
                        confirmed = any(x['name'] == cname and x['status'] == 'failed' for x in rp.get('checks', []))
                        if confirmed and cname == 'no-unexpected-exception':
                            # the native run must raise the SAME kind of exception; a different one (e.g. float overflow at the solver's huge model
                            # values, where the symbolic run computes over the reals) does not confirm the symbolic one
                            kind = lambda d: str(d or '').split(':')[0].strip()
                            confirmed = any(x['name'] == cname and x['status'] == 'failed' and kind(x.get('detail')) == kind(w.get('detail')) for x in rp.get('checks', []))
                    except BaseException as e:
                        rp = dict(status='replay crashed', error='%s: %s' % (type(e).__name__, e))
                elif t.kind == 'rt':
                    confirmed = True
                detail = w.get('detail') or ''
                if cname == 'no-unexpected-exception' and t.kind == 'sym' and not confirmed and isinstance(rp, dict) and rp.get('status') == 'ran':
                    # the exception was raised under symbolic execution only: the native run of the real code on an input of the SAME path raised nothing.
                    # An exception is a deterministic function of the input, so this one belongs to the engine (facade coverage), not to the code.
                    if ('File "%s/' % REPO) in detail:
                        engine_limited = 'symbolic run raised, native run on an input of the same path did not raise it: ' + detail.split('\n')[0][:200]
                    else:
                        # no frame of the repository between the harness and the raise: the CHECKER's own code failed under symbolic execution
                        errors.append('%s: harness / engine error under symbolic execution (no repository frame in the traceback): %s' % (t.name, detail[:600]))
                    continue
                kf = match_known(known, prop, cname, t.name, detail)
                fn = re.sub(r'[^A-Za-z0-9_.-]+', '_', '%s__%s' % (t.name, cname))[:150] + '.json'
                path = os.path.join('replays', prop, fn)
                json.dump(dict(property=prop, obligation=cname, task=t.name, tier=t.tier, note=t.note,
                               args=repr(t.args)[:2000], model=w.get('model'), solver_detail=detail,
                               failed_paths=c['failed'], replay=rp, confirmed_on_real_code=confirmed,
                               how_to_replay='./check replay %s' % path),
                          open(os.path.join(ROOT, path), 'w'), indent=1, default=str)
                rec = dict(task=t.name, obligation=cname, path=path, confirmed=confirmed, detail=detail[:300])
                if kf:
                    known_hits.append((kf, rec))
                else:
                    violations.append(rec)
        if engine_limited:
            ran, rp, bad = concrete_fallback(t, seed)
            if bad is not None:
                fn = re.sub(r'[^A-Za-z0-9_.-]+', '_', '%s__%s' % (t.name, bad['name']))[:150] + '.json'
                path = os.path.join('replays', prop, fn)
                json.dump(dict(property=prop, obligation=bad['name'], task=t.name, tier='R', note='native run of the task harness on sampled inputs (symbolic engine limited: %s)' % engine_limited,
                               args=repr(t.args)[:2000], model=rp.get('inputs'), solver_detail=bad.get('detail'), failed_paths=1, replay=rp, confirmed_on_real_code=True,
                               how_to_replay='./check replay %s' % path), open(os.path.join(ROOT, path), 'w'), indent=1, default=str)
                rec = dict(task=t.name, obligation=bad['name'], path=path, confirmed=True, detail=str(bad.get('detail'))[:300])
                kf = match_known(known, prop, bad['name'], t.name, str(bad.get('detail') or ''))
                (known_hits.append((kf, rec)) if kf else violations.append(rec))
            elif rp is not None or ran == 0:
                errors.append('%s: engine limited (%s) and the native fallback could not run (%s)' % (t.name, engine_limited, rp or 'no feasible sampled input'))
            else:
                degraded.append('%s: %s; %d native runs of the same harness on sampled inputs passed every clause' % (t.name, engine_limited, ran))
        if len(samples) < 6 and r['checks']:
            samples.append(dict(task=t.name, tier=t.tier, note=t.note, paths=r['paths'],
                                obligations={k: {kk: vv for kk, vv in v.items() if kk != 'witnesses'}
                                             for k, v in list(r['checks'].items())[:6]}))

    # ---- mutation sentinels (contract strength guard) --------------------------------------------
    sent_report = []
    sent_limit = 6          # a sentinel re-runs at most this many of its tasks (patterns may match many)
    sentinels = [] if (no_sentinels or only) else getattr(mod, 'SENTINELS', [])
    for sent in sentinels:
        sub = [t for t in tasks if t.name in sent.task_names or any(x.startswith('re:') and re.search(x[3:], t.name) for x in sent.task_names)][:sent_limit]
        if not sub:
            sent_report.append(dict(name=sent.name, status='skipped: tasks not in this tier'))
            continue
        with apply_sentinel(sent) as ok:
            if not ok:
                sent_report.append(dict(name=sent.name, status='not-applicable: source text not found'))
                continue
            global _TASKS
            _TASKS = sub
            killed = False
            undec = False
            for i_ in range(len(sub)):
                r = _run_task(i_)[1]
                if any(c['failed'] for cn, c in r['checks'].items() if cn not in sub[i_].expect_fail and _genuine_failure(cn, c)):
                    killed = True
                    break
                if r['errors'] or r.get('truncated') or any(c.get('unknown') or c['failed'] for cn, c in r['checks'].items() if cn not in sub[i_].expect_fail):
                    undec = True       # the mutant is not ACCEPTED (a real run would exit 2: undecided), but no clause names it
        status = 'killed' if killed else ('undecided (not accepted, exit 2)' if undec else 'SURVIVED')
        sent_report.append(dict(name=sent.name, status=status))
        if status == 'SURVIVED':
            vacuity.append('mutation sentinel survived: %s' % sent.name)

    wall = time.time() - t0
    files = sorted({inspect.getsourcefile(importlib.import_module(f.rsplit('.', 1)[0] if _is_mod(f.rsplit('.', 1)[0])
                                                                  else f.rsplit('.', 2)[0])) for f in getattr(mod, 'FUNCTIONS', [])
                    if _safe_mod(f)})
    all_u = n_obl['B'] == 0 and n_obl['R'] == 0 and n_obl['U'] > 0
    level = 'proof' if (all_u and getattr(mod, 'LEVEL', 'other') == 'proof') else 'other'
    total_obl = sum(n_obl.values())
    expl = ('Contract obligations on the real functions of /repo, generated by native symbolic execution '
            '(symrun): tier U (unbounded, counted as proved) %d/%d discharged; tier B (bounded skeleton family, '
            'all numeric values symbolic, never counted as proved) %d/%d; tier R (run-time contract evaluation on '
            'concrete inputs) %d/%d clause groups over %d cases. %s'
            % (n_dis['U'], n_obl['U'], n_dis['B'], n_obl['B'], n_dis['R'], n_obl['R'], rt_cases,
               getattr(mod, 'EXPLANATION', '')))
    coverage = dict(
        obligations=n_obl['U'], discharged=n_dis['U'],
        bounded_obligations=n_obl['B'], bounded_discharged=n_dis['B'],
        runtime_obligations=n_obl['R'], runtime_discharged=n_dis['R'], runtime_cases=rt_cases,
        evaluations=max(1, n_paths), distinct_nontrivial=max(2, total_obl),
        rule='one evaluation = one explored symbolic path (or one concrete run-time case) of a real function under '
             'contract; distinct_nontrivial = number of distinct (task, clause) obligations generated this run',
        checker_cmd='./check %s --tier %s' % (prop, tier),
        trusted_base=list(getattr(mod, 'ASSUMPTIONS', [])) + ['external-assumed: %s (%s)' % kv for kv in sorted(external.items())],
        explanation=expl, samples=samples, exhaustive=False,
        functions_under_contract=list(getattr(mod, 'FUNCTIONS', [])),
        source_sha256={os.path.relpath(f, REPO): file_sha(f) for f in files},
        lemmas=list(getattr(mod, 'LEMMAS', [])),
        tasks=len(tasks), paths=n_paths, solver_queries=queries, solver_s=round(solver_s, 2), backends=backends,
        sentinels=sent_report, undecided=undecided[:20], engine_errors=errors[:20], vacuity=vacuity[:20], unbound_contracts=unbound[:200], degraded_tasks=degraded[:200],
        known_findings=[dict(id=k.get('id'), obligation=r['obligation'], task=r['task']) for k, r in known_hits],
        not_decided=list(getattr(mod, 'NOT_DECIDED', [])),
    )
    evidence = dict(property_id=prop, tier=tier, seed=seed, level=level, coverage=coverage,
                    assumptions=list(getattr(mod, 'ASSUMPTIONS', [])), wall_s=round(wall, 2),
                    violations=len(violations))
    json.dump(evidence, open(os.path.join(ROOT, 'evidence', prop + '.json'), 'w'), indent=1, default=str)

    print('%s tier=%s tasks=%d paths=%d  U %d/%d  B %d/%d  R %d/%d  solver=%.1fs wall=%.1fs' % (
        prop, tier, len(tasks), n_paths, n_dis['U'], n_obl['U'], n_dis['B'], n_obl['B'], n_dis['R'], n_obl['R'],
        solver_s, wall))
    for s_ in sent_report:
        print('  sentinel %-40s %s' % (s_['name'], s_['status']))
    seen = set()
    for k, r in known_hits:
        key = k.get('id')
        if key in seen:
            continue
        seen.add(key)
        print('KNOWN-FINDING: property=%s %s [%s; obligation %s; replay %s]' % (prop, k.get('what'), k.get('id'), r['obligation'], r['path']))
    for u in unbound[:10]:
        print('UNBOUND-CONTRACT (cut-loop obligation not discharged; the whole-function tasks decide): %s' % u[:400])
    for u in degraded[:10] + (['... and %d more' % (len(degraded) - 10)] if len(degraded) > 10 else []):
        print('DEGRADED-TO-NATIVE-RUNS (obligations of the task not discharged; the symbolic engine cannot execute the current source): %s' % u[:400])
    for v in violations:
        print('VIOLATION property=%s replay=%s obligation=%s task=%s%s' % (
            prop, v['path'], v['obligation'], v['task'], '' if v['confirmed'] else ' no-failing-input-found'))
    if violations:
        return 1
    if vacuity:
        for v in vacuity:
            print('VACUITY/STRENGTH: %s' % v)
        return 3
    if errors:
        for e in errors[:10]:
            print('ENGINE-ERROR: %s' % e[:1500])
        return 3 if any('crashed' in e for e in errors) else 2
    if undecided:
        for u in undecided[:10]:
            print('UNDECIDED: %s' % u)
        return 2
    if total_obl == 0:
        print('VACUITY: zero obligations generated')
        return 3
    return 0


def _is_mod(name):
    try:
        importlib.import_module(name)
        return True
    except Exception:
        return False


def _safe_mod(f):
    try:
        m = f.rsplit('.', 1)[0]
        if _is_mod(m):
            return True
        return _is_mod(f.rsplit('.', 2)[0])
    except Exception:
        return False


def replay_main(argv):
    path = argv[0]
    sys.path.insert(0, ROOT)
    d = json.load(open(path if os.path.isabs(path) else os.path.join(ROOT, path)))
    mod = importlib.import_module('props.' + d['property'])
    for tier in ('quick', 'thorough'):
        for t in mod.tasks(tier, 0):
            if t.name == d['task']:
                if t.kind == 'sym':
                    rp = S.run_concrete(t.harness, t.args, d.get('model'))
                    bad = [c for c in rp.get('checks', []) if c['status'] == 'failed' and c['name'] not in t.expect_fail]   # must-fail clauses are meant to fail
                    print(json.dumps(dict(task=t.name, failed=bad, inputs=rp.get('inputs')), indent=1, default=str))
                    return 1 if bad else 0
                else:
                    bad = [r for r in t.harness(*t.args) if not r['ok']]
                    print(json.dumps(dict(task=t.name, failed=bad[:5]), indent=1, default=str))
                    return 1 if bad else 0
    print('task not found: %s' % d['task'])
    return 3
