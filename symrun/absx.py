"""symrun.absx -- abstract (unbounded) objects for tier U.

Atom      a hashable whose identity is a z3 integer term: equality is symbolic (forks when Python needs a truth value)
AbsDist   a finite distribution of UNBOUNDED support: the i-th event/probability are uninterpreted functions key(i), val(i) of an index,
          len is a symbolic integer; `items()` is opaque (only a cut loop may iterate it, one arbitrary element at a time);
          `sample(rng=...)` returns an arbitrary event of positive probability (demonic)
AbsMap    a total map Atom -> real backed by a z3 array (for defaultdict accumulators inside cut loops)
rsum      recursively defined ghost sums  S(0)=0, S(i+1)=S(i)+term(i)   (z3 RecFunction)
"""
import z3
from . import core as S
from .core import SymReal, SymBool


class Atom:
    __slots__ = ('e',)
    __array_ufunc__ = None

    def __init__(self, e):
        self.e = e

    def __eq__(self, o):
        if isinstance(o, Atom):
            return S.mk_bool(self.e == o.e)
        return False

    def __ne__(self, o):
        r = self.__eq__(o)
        return (not r) if isinstance(r, bool) else ~r

    def __hash__(self):
        return 0

    def __bool__(self):
        # the truthiness of an arbitrary label is arbitrary (0, '', () and None are legal labels): forks
        return S._decide(_TRUTHY(self.e))

    def __repr__(self):
        return 'Atom(%s)' % self.e


_TRUTHY = z3.Function('Truthy', z3.IntSort(), z3.BoolSort())


def atom(name):
    r = S.cur()
    c = z3.Int(name)
    r.inputs[name] = c
    return Atom(c)


def fresh_atom(base):
    return atom(S.cur().fresh(base))


class AbsMap:
    """total map Atom -> real; reads and writes build z3 select/store terms"""

    def __init__(self, arr=None, name='map', default=None, focus=None):
        self.focus = focus      # the arbitrary-but-fixed key through which element-wise consumers (comprehensions) see the map
        if arr is None:
            if default is not None:
                arr = z3.K(z3.IntSort(), S._rat(default))
            else:
                arr = z3.Array(S.cur().fresh(name), z3.IntSort(), z3.RealSort())
        self.arr = arr

    def __getitem__(self, k):
        return SymReal(z3.Select(self.arr, k.e))

    def __setitem__(self, k, v):
        self.arr = z3.Store(self.arr, k.e, S.as_real(v).e)

    def get(self, k, d=None):
        return self[k]

    def items(self):
        """element-wise view: exactly the focus element.  Sound for consumers that treat elements independently (dict/list comprehensions
        without cross-iteration state): the result at an arbitrary key is determined by that key's element alone, and a key that was
        never written reads as the default"""
        if self.focus is None:
            raise S.Unsupported('iteration over an abstract map without a focus key')
        return [(self.focus, self[self.focus])]

    def values(self):
        return AbsValues(self)


class AbsValues:
    """the value view of an abstract map: only an abstract `sum` may consume it"""

    def __init__(self, m):
        self.m = m

    def __iter__(self):
        raise S.Unsupported('iteration over the values of an abstract map')


_REC = {}


def rsum(name, term):
    """ghost sum: returns the z3 function Sfun with Sfun(0)=0 and Sfun(i+1)=Sfun(i)+term(i); term: z3 Int -> z3 Real"""
    nm = S.cur().fresh(name)
    if nm in _REC:          # same definition on every path of the same harness
        return _REC[nm]
    f = z3.RecFunction(nm, z3.IntSort(), z3.RealSort())
    _REC[nm] = f
    i = z3.Int(S.cur().fresh('i'))
    z3.RecAddDefinition(f, [i], z3.If(i <= 0, z3.RealVal(0), f(i - 1) + term(i - 1)))
    return f


def rsum2(name, term):
    """ghost sum with a parameter: Sfun(0,k)=0, Sfun(i+1,k)=Sfun(i,k)+term(i,k)"""
    nm = S.cur().fresh(name)
    if nm in _REC:
        return _REC[nm]
    f = z3.RecFunction(nm, z3.IntSort(), z3.IntSort(), z3.RealSort())
    _REC[nm] = f
    i, k = z3.Int(S.cur().fresh('i')), z3.Int(S.cur().fresh('k'))
    z3.RecAddDefinition(f, [i, k], z3.If(i <= 0, z3.RealVal(0), f(i - 1, k) + term(i - 1, k)))
    return f


def rsumN(name, nparams, term):
    """ghost sum with integer parameters: Sfun(0,*p)=0, Sfun(i+1,*p)=Sfun(i,*p)+term(i,*p)"""
    nm = S.cur().fresh(name)
    if nm in _REC:
        return _REC[nm]
    f = z3.RecFunction(nm, *([z3.IntSort()] * (1 + nparams)), z3.RealSort())
    _REC[nm] = f
    i = z3.Int(S.cur().fresh('i'))
    ps = [z3.Int(S.cur().fresh('p')) for _ in range(nparams)]
    z3.RecAddDefinition(f, [i] + ps, z3.If(i <= 0, z3.RealVal(0), f(i - 1, *ps) + term(i - 1, *ps)))
    return f


class Opaque:
    """an iterable that must not be materialised: only a cut loop with an `element` hook may consume it"""

    def __init__(self, what, owner=None):
        self.what = what
        self.owner = owner      # lets a loop contract recognise the iterable it was written for

    def __iter__(self):
        raise S.Unsupported('iteration over an abstract %s outside a cut loop' % self.what)

    def __len__(self):
        raise S.Unsupported('len() of an abstract %s' % self.what)
