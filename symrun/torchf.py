"""symrun.torchf -- a thin `torch` facade over the same object arrays as the numpy facade.

Only the ~25 torch calls the repository's tensor programs use are provided; structural operations are real numpy
on dtype=object arrays, analytic ones (log, exp, softmax) are uninterpreted-function terms (see core.exp_uf / log_uf),
linear solves / inverses are exact rational eliminations on numeral matrices and implicit definitions otherwise."""
import math
import numpy as _np
import z3
from . import core as S
from .core import SymReal, SymBool
from . import npf
from .npf import SymArray, NP, has_sym, _wrap, _o


class Tensor(SymArray):
    """SymArray with the torch method names used by the repo"""

    def sum(self, *args, dim=None, axis=None, keepdim=False, keepdims=False, **kw):
        ax = dim if dim is not None else axis
        if args:
            ax = args[0]
        r = _np.asarray(self).sum(axis=ax, keepdims=keepdim or keepdims)
        return T(r)

    def view(self, *shape):
        if len(shape) == 1 and isinstance(shape[0], (tuple, list)):
            shape = tuple(shape[0])
        if len(shape) == 1 and isinstance(shape[0], type) and issubclass(shape[0], _np.ndarray):
            return _np.ndarray.view(self, shape[0])
        return T(_np.asarray(self).reshape(shape))

    def reshape(self, *shape):
        if len(shape) == 1 and isinstance(shape[0], (tuple, list)):
            shape = tuple(shape[0])
        return T(_np.asarray(self).reshape(shape))

    def contiguous(self):
        return self

    def detach(self):
        return self

    def clone(self):
        return T(_np.asarray(self).copy())

    def numpy(self):
        return _np.asarray(self).view(SymArray)

    def item(self):
        a = _np.asarray(self)
        assert a.size == 1
        return a.reshape(-1)[0]

    def inverse(self):
        return T(npf.linalg.inv(_np.asarray(self).view(SymArray)))

    def expand(self, *sizes):
        a = _np.asarray(self)
        shape = tuple(a.shape[i] if s == -1 else s for i, s in enumerate(sizes))
        return T(_np.broadcast_to(a, shape).copy())

    def softmax(self, dim):
        return softmax(self, dim)

    def unbind(self, dim=0):
        a = _np.moveaxis(_np.asarray(self), dim, 0)
        return tuple(T(x) if isinstance(x, _np.ndarray) else x for x in a)

    def unsqueeze(self, dim):
        return T(_np.expand_dims(_np.asarray(self), dim))

    def squeeze(self, dim=None):
        return T(_np.squeeze(_np.asarray(self), axis=dim))

    def transpose(self, a, b):
        return T(_np.swapaxes(_np.asarray(self), a, b))

    def size(self, d=None):
        return self.shape if d is None else self.shape[d]

    def max(self, *a, **k):
        r = SymArray.max(self, *a, **k)
        return T(r) if isinstance(r, _np.ndarray) else r

    def __matmul__(self, o):
        r = _np.matmul(_np.asarray(self), _np.asarray(o))
        return T(r) if isinstance(r, _np.ndarray) and r.ndim > 0 else (r[()] if isinstance(r, _np.ndarray) else r)

    def __rmatmul__(self, o):
        r = _np.matmul(_np.asarray(o), _np.asarray(self))
        return T(r) if isinstance(r, _np.ndarray) and r.ndim > 0 else (r[()] if isinstance(r, _np.ndarray) else r)

    @property
    def T(self):
        return T_(_np.asarray(self).T)

    def __array_finalize__(self, obj):
        pass


def T(a):
    a = _np.asarray(a)
    if a.dtype != object:
        if a.dtype.kind in 'fiu':
            a = a.astype(object)
        else:
            return a.view(Tensor)
    return a.view(Tensor)


T_ = T


def softmax(x, dim):
    a = _np.asarray(x)
    mx = npf._reduce(a.view(SymArray), npf._smax2, dim, True)
    ex = _np.frompyfunc(lambda v, m: S.MATH.exp(v - m), 2, 1)(a, _np.asarray(mx))
    tot = ex.sum(axis=dim, keepdims=True)
    return T(ex / tot)


class _FInfo:
    def __init__(self):
        self.tiny = 2.2250738585072014e-308
        self.eps = 2.220446049250313e-16
        self.max = 1.7976931348623157e+308


class _Linalg:
    def solve(self, A, b):
        return T(npf.linalg.solve(_np.asarray(A).view(SymArray), _np.asarray(b).view(SymArray)))

    def inv(self, A):
        return T(npf.linalg.inv(_np.asarray(A).view(SymArray)))


class TorchFacade:
    float64 = 'float64'
    float32 = 'float32'
    Tensor = Tensor
    linalg = _Linalg()

    def __getattr__(self, n):
        import torch, types
        obj = getattr(torch, n)
        if isinstance(obj, (type, types.ModuleType)) or not callable(obj):
            return obj

        def guarded(*a, **k):
            def symbolic_arg(x):
                if isinstance(x, (Tensor, SymArray, SymReal, SymBool)):
                    return True
                if isinstance(x, _np.ndarray) and x.dtype == object:
                    return True
                if isinstance(x, (list, tuple)):
                    return any(symbolic_arg(y) for y in x)
                return False
            if any(symbolic_arg(x) for x in list(a) + list(k.values())):
                raise S.Unsupported('torch.%s is not modelled by the torch facade' % n)
            return obj(*a, **k)
        return guarded

    def stack(self, tensors, dim=0):
        return T(_np.stack([_np.asarray(t) for t in tensors], axis=dim))

    def cat(self, tensors, dim=0):
        return T(_np.concatenate([_np.asarray(t) for t in tensors], axis=dim))

    def tensor(self, x, dtype=None, **kw):
        if isinstance(x, (int, float, SymReal)):
            return T(_np.array(x, dtype=object))
        return T(_np.array(_np.asarray(x), dtype=object))

    def from_numpy(self, x):
        return T(_np.asarray(x))

    def as_tensor(self, x, **kw):
        return self.tensor(x)

    def ones(self, *shape, dtype=None, **kw):
        if len(shape) == 1 and isinstance(shape[0], (tuple, list)) or (len(shape) == 1 and hasattr(shape[0], '__len__')):
            shape = tuple(shape[0])
        a = _np.empty(shape, dtype=object)
        a.fill(1)
        return T(a)

    def zeros(self, *shape, dtype=None, **kw):
        if len(shape) == 1 and hasattr(shape[0], '__len__'):
            shape = tuple(shape[0])
        a = _np.empty(shape, dtype=object)
        a.fill(0)
        return T(a)

    def eye(self, n, dtype=None, **kw):
        return T(_np.eye(n).astype(int).astype(object))

    def einsum(self, spec, *ops):
        return T(_np.einsum(spec, *[_np.asarray(o).astype(object) for o in ops]))

    def finfo(self, dtype=None):
        return _FInfo()

    def clamp(self, x, min=None, max=None):
        a = _np.asarray(x)
        f = _np.frompyfunc(lambda v: S.Max([v, min]) if min is not None else v, 1, 1)
        r = f(a)
        if max is not None:
            r = _np.frompyfunc(lambda v: S.Min([v, max]), 1, 1)(r)
        return T(r)

    def log(self, x):
        a = _np.asarray(x)
        return T(_np.frompyfunc(_log1, 1, 1)(a))

    def exp(self, x):
        a = _np.asarray(x)
        return T(_np.frompyfunc(lambda v: S.MATH.exp(v), 1, 1)(a))

    def softmax(self, x, dim):
        return softmax(x, dim)

    def nansum(self, x, dim=None):
        a = _np.asarray(x)
        f = _np.frompyfunc(lambda v: 0 if (isinstance(v, SymReal) and v.k == S.NAN) or (isinstance(v, float) and v != v) else v, 1, 1)
        return T(f(a).sum(axis=dim))

    def isclose(self, a, b, rtol=1e-05, atol=1e-08, equal_nan=False):
        return NP.isclose(_np.asarray(a).view(SymArray), _np.asarray(b).view(SymArray), rtol=rtol, atol=atol)

    def allclose(self, a, b, rtol=1e-05, atol=1e-08, equal_nan=False):
        return NP.allclose(_np.asarray(a).view(SymArray), _np.asarray(b).view(SymArray), rtol=rtol, atol=atol)

    def all(self, x):
        r = NP.all(_np.asarray(x).view(SymArray) if isinstance(x, _np.ndarray) else x)
        return r

    def max(self, x, *a, **k):
        return NP.max(_np.asarray(x).view(SymArray), *a, **k)

    def abs(self, x):
        return T(NP.abs(_np.asarray(x).view(SymArray)))


_LOG = z3.Function('log', z3.RealSort(), z3.RealSort())


def log_uf(x):
    """log of a symbolic positive real: uninterpreted, with log(1)=0 and strict monotonicity instantiated pairwise"""
    r = S.cur()
    x = S.as_real(x)
    seen = r.__dict__.setdefault('_log_args', [])
    e = _LOG(x.e)
    r.solver.add(z3.Implies(x.e == 1, e == 0))
    for y in seen:
        r.solver.add(z3.Implies(x.e < y, e < _LOG(y)))
        r.solver.add(z3.Implies(x.e > y, e > _LOG(y)))
        r.solver.add(z3.Implies(x.e == y, e == _LOG(y)))
    seen.append(x.e)
    S.note('external-assumed', what='log', contract='uninterpreted: log(1)=0, strictly monotone')
    return SymReal(e)


def _log1(v):
    if isinstance(v, SymBool):
        return 0.0 if bool(v) else -math.inf
    if isinstance(v, (bool, _np.bool_)):
        return 0.0 if v else -math.inf
    if isinstance(v, SymReal):
        c = S.concrete_value(v)
        if c is None:
            return log_uf(v)
        v = c
    v = float(v)
    if v == 0:
        return -math.inf
    if v == 1:
        return 0.0
    return log_uf(S.SymReal.of(v))


TORCH = TorchFacade()
