"""specs.reuse -- run-time clauses about state that outlives a call: a planner OBJECT that has already planned on other models must plan like a fresh
one, an earlier RESULT must not change when the planner is used again, and a MODEL object that other planners have already used (caches filled) must be
planned on like a fresh copy.  Shared by the run-time tiers of the planner properties."""
import random, warnings
import numpy as np


def chain(n, g=.9, goal_left=False, slip=.2, cost=1.0):
    from msdm.core.mdp import QuickTabularMDP
    from msdm.core.distributions import DictDistribution as D
    goal = 0 if goal_left else n - 1
    start = n - 1 if goal_left else 0

    def nsd(s, a):
        if a == 'r':
            return D({s + 1: 1 - slip, s: slip}) if s < n - 1 else D({s: 1.})
        return D({s - 1: .9, s: .1}) if s > 0 else D({s: 1.})
    return QuickTabularMDP(next_state_dist=nsd, reward=lambda s, a, ns: -cost - .1 * s, actions=['l', 'r'], initial_state=start, is_absorbing=lambda s: s == goal,
                           discount_rate=g)


def det_chain(n):
    from msdm.core.mdp import QuickTabularMDP
    return QuickTabularMDP(next_state=lambda s, a: min(s + 1, n - 1) if a == 'r' else max(s - 1, 0), reward=lambda s, a, ns: -1. - (a == 'l'), actions=('l', 'r'),
                           initial_state=0, is_absorbing=lambda s: s == n - 1, discount_rate=1.)


def digest(r):
    out = {}
    for k in ('initial_value', 'path', 'path_value', 'converged', 'iterations'):
        if hasattr(r, k):
            v = getattr(r, k)
            out[k] = round(float(v), 9) if isinstance(v, (float, np.floating)) else (list(v) if isinstance(v, (list, tuple)) else v)
    for k in ('state_value', 'V', 'state_gain'):
        if hasattr(r, k):
            try:
                out[k] = {str(s): round(float(v), 9) for s, v in dict(getattr(r, k)).items()}
            except Exception:
                pass
    pol = getattr(r, 'policy', None)
    if pol is not None and hasattr(r, 'state_value'):
        try:
            out['policy'] = {str(s): {str(a): round(float(p), 9) for a, p in pol.action_dist(s).items()} for s in dict(r.state_value)}
        except Exception:
            pass
    return out


def records(name, mk, problems, prefix):
    """problems: list of zero-argument constructors of models (fresh object per call)"""
    out = []
    with warnings.catch_warnings():
        warnings.simplefilter('ignore')
        o = mk()
        first = o.plan_on(problems[0]())
        d_first = digest(first)
        for p in problems[1:-1]:
            o.plan_on(p())
        a = digest(o.plan_on(problems[-1]()))
        b = digest(mk().plan_on(problems[-1]()))
        out.append(dict(name='rt:%s:%s:a-planner-object-that-planned-on-other-models-plans-like-a-fresh-one' % (prefix, name), ok=(a == b), witness=dict(reused=repr(a)[:300], fresh=repr(b)[:300])))
        out.append(dict(name='rt:%s:%s:an-earlier-result-is-not-changed-by-using-the-planner-again' % (prefix, name), ok=(digest(first) == d_first), witness=dict(before=repr(d_first)[:300])))
        # a model OBJECT whose caches other planners have filled
        m = problems[-1]()
        others = [mk2 for (_, mk2) in ALL_PLANNERS() if _ != name][:3]
        for mk2 in others:
            try:
                mk2().plan_on(m)
            except Exception:
                pass
        c = digest(mk().plan_on(m))
        out.append(dict(name='rt:%s:%s:a-model-object-already-used-by-other-planners-is-planned-on-like-a-fresh-copy' % (prefix, name), ok=(c == b), witness=dict(used=repr(c)[:300], fresh=repr(b)[:300])))
    return out


def ALL_PLANNERS():
    from msdm.algorithms import ValueIteration, PolicyIteration, LAOStar, LRTDP
    return [('ValueIteration', lambda: ValueIteration()), ('PolicyIteration', lambda: PolicyIteration()),
            ('LAOStar', lambda: LAOStar(heuristic=lambda s: 0., seed=1)), ('LRTDP', lambda: LRTDP(heuristic=lambda s: 0., seed=1))]


def rt_planner_reuse(prefix, which, seed):
    from msdm.algorithms import ValueIteration, PolicyIteration, LAOStar, LRTDP
    from msdm.algorithms.multichainpolicyiteration import MultichainPolicyIteration
    from msdm.algorithms.search import AStarSearch, BreadthFirstSearch
    rnd = random.Random('reuse/%s' % seed)
    g1, g2 = rnd.choice([.5, .8]), rnd.choice([.9, .95])
    mdps = [lambda: chain(3, g1), lambda: chain(4, g2, goal_left=True, slip=.4), lambda: chain(5, g2, goal_left=True, cost=2.0)]
    dets = [lambda: det_chain(3), lambda: det_chain(6), lambda: det_chain(4)]
    table = {
        'ValueIteration': (lambda: ValueIteration(), mdps), 'ValueIteration-dict': (lambda: ValueIteration(_version='dict') if 'version' in ValueIteration.__init__.__code__.co_varnames else ValueIteration(), mdps),
        'PolicyIteration': (lambda: PolicyIteration(), mdps), 'MultichainPolicyIteration': (lambda: MultichainPolicyIteration(), mdps),
        'LAOStar': (lambda: LAOStar(heuristic=lambda s: 0., seed=seed, randomize_action_order=True), mdps),
        'LRTDP': (lambda: LRTDP(heuristic=lambda s: 0., seed=seed, randomize_action_order=True), mdps),
        'AStarSearch': (lambda: AStarSearch(seed=seed, tie_breaking_strategy='random', randomize_action_order=True), dets),
        'BreadthFirstSearch': (lambda: BreadthFirstSearch(seed=seed, randomize_action_order=True), dets),
    }
    out = []
    for name in which:
        mk, probs = table[name]
        out += records(name, mk, probs, prefix)
    return out
