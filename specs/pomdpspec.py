"""POMDP skeletons and builder (real TabularPOMDP subclass instances with symbolic leaves) + specification functions."""
import contextlib, random as _random
from fractions import Fraction
from symrun import core as S
from specs import mdpspec as M
from specs.mdpspec import Skel


class POSkel:
    def __init__(self, name, mdp_skel, obs_supp, obs_zero=None):
        self.name = name
        self.m = mdp_skel
        self.obs_supp = dict(obs_supp)      # (a, ns) -> tuple of observations with probability > 0
        self.obs_zero = dict(obs_zero or {})  # (a, ns) -> extra observations listed with probability exactly 0
        ol = []
        for k in sorted(self.obs_supp, key=repr):
            for o in self.obs_supp[k]:
                if o not in ol:
                    ol.append(o)
        self.observations = ol

    def __repr__(self):
        return 'POSkel(%s)' % self.name


def facade_modules():
    import msdm.core.pomdp.pomdp as pp, msdm.core.pomdp.tabularpomdp as tpp, msdm.core.pomdp.beliefmdp as bm, \
        msdm.core.pomdp.policy as ppol, msdm.core.pomdp.alphavectorpolicy as av, msdm.core.pomdp.finitestatecontroller as fsc
    return [pp, tpp, bm, ppol, av, fsc]


@contextlib.contextmanager
def facades(*extra):
    with M.facades(*(facade_modules() + list(extra))):
        yield


def make_pomdp(sk, tag='p', gamma='sym', numeric='sym', nseed=0, reward_sign=None):
    """returns (pomdp, view); view has T, R, p0, gamma (as mdpspec) and O[(a, ns, o)]"""
    from msdm.core.pomdp import TabularPOMDP
    from msdm.core.distributions import DictDistribution
    mdp0, v = M.make_mdp(sk.m, tag=tag, gamma=gamma, numeric=numeric, nseed=nseed, reward_sign=reward_sign)
    grnd = _random.Random('obs/%s/%s' % (sk.name, nseed))
    v.O = {}
    v.posk = sk
    for (a, ns), sup in sk.obs_supp.items():
        if len(sup) == 1:
            v.O[(a, ns, sup[0])] = 1.0
        else:
            ps = S.simplex(['%s_O_%s_%s_%s' % (tag, a, ns, o) for o in sup]) if numeric == 'sym' else M._generic_simplex(grnd, len(sup))
            for o, p in zip(sup, ps):
                v.O[(a, ns, o)] = p
        for o in sk.obs_zero.get((a, ns), ()):
            v.O[(a, ns, o)] = 0.0
    skm = sk.m

    class SkelPOMDP(TabularPOMDP):
        discount_rate = v.gamma

        def next_state_dist(self, s, a):
            sup = list(skm.supp[(s, a)]) + list(skm.zero_prob.get((s, a), ()))
            return DictDistribution({n: v.T[(s, a, n)] for n in sup})

        def reward(self, s, a, ns):
            return v.R[(s, a, ns)]

        def actions(self, s):
            return skm.actions.get(s, ())

        def initial_state_dist(self):
            return DictDistribution(dict(v.p0))

        def is_absorbing(self, s):
            return s in skm.absorbing

        def observation_dist(self, a, ns):
            sup = list(sk.obs_supp[(a, ns)]) + list(sk.obs_zero.get((a, ns), ()))
            return DictDistribution({o: v.O[(a, ns, o)] for o in sup})

    p = SkelPOMDP()
    v.pomdp = p
    return p, v


def spec_O(v, a, n, o):
    return v.O.get((a, n, o), 0.0)


def spec_tau(v, b, a, o):
    """tau(b,a,o)[n] = Sigma_s b[s] T[s,a,n] O[a,n,o]   (b: dict state -> prob)"""
    sk = v.skel
    out = {}
    for n in sk.states:
        out[n] = S.Sum(b.get(s, 0) * M.spec_T(v, s, a, n) * spec_O(v, a, n, o) for s in sk.states if (s, a) in sk.supp)
    return out


def uniform_actions_skel(name, states, actions, supp, absorbing=(), init=None, zero_prob=()):
    """POMDP code assumes every listed action is available in every state (belief MDP / planners)"""
    return Skel(name, states, {s: tuple(actions) for s in states}, supp, absorbing=absorbing, init=init, zero_prob=zero_prob)


def family_state_dependent_actions():
    """POMDPs whose action sets depend on the state (legal for a tabular POMDP; the belief MDP and the planners assume uniform action sets, so these
    skeletons are used for the filters only, on beliefs supported where the action is available).  `go` is legal in `l` and leads to `r`, where it is not."""
    m = Skel('m2sd', ['l', 'r'], {'l': ('go',), 'r': ('stay',)}, {('l', 'go'): ('l', 'r'), ('r', 'stay'): ('r',)}, init=['l'])
    return [POSkel('p222-state-dependent-actions', m, {('go', 'l'): ('o1',), ('go', 'r'): ('o1', 'o2'), ('stay', 'l'): ('o2',), ('stay', 'r'): ('o2', 'o1')})]


def family(tier='quick', seed=0):
    F = []
    # (S,A,O) = (2,1,2): one action, noisy observation of the next state
    m = uniform_actions_skel('m212', ['l', 'r'], ['go'], {('l', 'go'): ('l', 'r'), ('r', 'go'): ('r',)}, init=['l', 'r'])
    F.append(POSkel('p212', m, {('go', 'l'): ('ol', 'or'), ('go', 'r'): ('or',)}))
    # (2,2,2) tiger-like: listen keeps the state, open resets; action-dependent kernels, zero entries
    m = uniform_actions_skel('m222', ['l', 'r'], ['listen', 'open'],
                             {('l', 'listen'): ('l',), ('r', 'listen'): ('r',), ('l', 'open'): ('l', 'r'), ('r', 'open'): ('l', 'r')}, init=['l', 'r'])
    F.append(POSkel('p222-tiger', m, {('listen', 'l'): ('hl', 'hr'), ('listen', 'r'): ('hl', 'hr'), ('open', 'l'): ('hl',), ('open', 'r'): ('hl', 'hr')},
                    obs_zero={('open', 'l'): ('hr',)}))
    # (3,2,2) with an absorbing state and a non-square shape
    m = uniform_actions_skel('m322', ['a', 'b', 'g'], ['x', 'y'],
                             {('a', 'x'): ('a', 'b'), ('a', 'y'): ('g',), ('b', 'x'): ('b', 'g'), ('b', 'y'): ('a',), ('g', 'x'): ('g',), ('g', 'y'): ('g',)},
                             absorbing=['g'], init=['a', 'b'])
    F.append(POSkel('p322-absorbing', m, {('x', 'a'): ('o1',), ('x', 'b'): ('o1', 'o2'), ('x', 'g'): ('o2',), ('y', 'a'): ('o1', 'o2'), ('y', 'b'): ('o2',), ('y', 'g'): ('o1', 'o2')}))
    # the absorbing state comes FIRST in the state list (mixed beliefs whose first support state is absorbing), (2,1,2)
    m = uniform_actions_skel('m212a', ['A', 'b'], ['go'], {('A', 'go'): ('A',), ('b', 'go'): ('A', 'b')}, absorbing=['A'], init=['b', 'A'])
    F.append(POSkel('p212-absorbing-first', m, {('go', 'A'): ('o1', 'o2'), ('go', 'b'): ('o2',)}))
    # sparse transitions whose successors are met in an order different from the state list (posteriors built in first-encounter order: 1, 2, 0), (3,1,2)
    m = uniform_actions_skel('m312r', [0, 1, 2], ['go'], {(0, 'go'): (1, 2), (1, 'go'): (0,), (2, 'go'): (2, 1)}, init=[0, 1])
    F.append(POSkel('p312-rotating', m, {('go', 0): ('o1', 'o2'), ('go', 1): ('o1', 'o2'), ('go', 2): ('o1', 'o2')}))
    # falsy labels everywhere (state 0, action '', observation 0), start state outside the initial support
    m = uniform_actions_skel('m222f', [0, 1], ['', 'go'], {(0, ''): (0,), (1, ''): (1, 0), (0, 'go'): (1,), (1, 'go'): (0, 1)}, init=[1])
    F.append(POSkel('p222-falsy-labels', m, {('', 0): (0,), ('', 1): (0, 1), ('go', 0): (1,), ('go', 1): (0, 1)}))
    if tier == 'thorough':
        m = uniform_actions_skel('m323', ['a', 'b', 'c'], ['x', 'y'],
                                 {('a', 'x'): ('a', 'b', 'c'), ('a', 'y'): ('c',), ('b', 'x'): ('b',), ('b', 'y'): ('a', 'c'), ('c', 'x'): ('c', 'a'), ('c', 'y'): ('b',)}, init=['a'])
        F.append(POSkel('p323', m, {(a, n): ('o1', 'o2', 'o3') if (a, n) in (('x', 'a'), ('y', 'c')) else ('o2',) if n == 'b' else ('o1', 'o3')
                                    for a in ('x', 'y') for n in ('a', 'b', 'c')}))
        # fully revealing observations
        m = uniform_actions_skel('m222r', ['l', 'r'], ['s', 't'], {('l', 's'): ('l', 'r'), ('r', 's'): ('r',), ('l', 't'): ('r',), ('r', 't'): ('l', 'r')}, init=['l'])
        F.append(POSkel('p222-revealing', m, {(a, n): ('see-' + n,) for a in ('s', 't') for n in ('l', 'r')}))
    return F
