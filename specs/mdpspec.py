"""MDP skeletons, the builder of REAL TabularMarkovDecisionProcess instances with symbolic leaves, and the
specification functions of DESIGN.md section 3 (written from the property statements, in Sigma/max notation,
polymorphic over symbolic / concrete leaves)."""
import contextlib, itertools, random as _random
import numpy as _np
from symrun import core as S
from symrun.npf import NP, concretise_mask
from symrun.patch import patched


class Skel:
    """Concrete skeleton of an MDP: names, availability, support structure.  All numbers are leaves."""

    def __init__(self, name, states, actions, supp, absorbing=(), init=None, zero_prob=(), zero_reward=(),
                 action_order=None, explicit_lists=False):
        self.name = name
        self.states = list(states)
        self.actions = dict(actions)          # s -> tuple of actions
        self.supp = dict(supp)                # (s,a) -> tuple of next states with probability > 0
        self.absorbing = set(absorbing)       # explicit is_absorbing
        self.init = tuple(init if init is not None else [self.states[0]])
        self.zero_prob = {k: tuple(v) for k, v in dict(zero_prob).items()}   # (s,a) -> extra entries with prob exactly 0
        self.zero_reward = set(zero_reward)   # (s,a,ns) whose reward is the constant 0
        al = []
        for s in self.states:
            for a in self.actions.get(s, ()):
                if a not in al:
                    al.append(a)
        self.action_list = list(action_order) if action_order else al
        self.explicit_lists = explicit_lists

    def __repr__(self):
        return 'Skel(%s)' % self.name



def relabel_actions(sk, amap, name=None, reverse_order=True):
    """the same skeleton with other action labels (used to bring FALSY labels -- 0, '' -- into a family; reverse_order puts a falsy label that was
    first in a state's action tuple behind the others, where `x or default` idioms go wrong)"""
    f = lambda a: amap.get(a, a)
    acts = {s: tuple(f(a) for a in (reversed(v) if reverse_order else v)) for s, v in sk.actions.items()}
    return Skel(name or sk.name + '-falsy-actions', sk.states, acts, {(s, f(a)): v for (s, a), v in sk.supp.items()}, absorbing=sk.absorbing, init=sk.init,
                zero_prob={(s, f(a)): v for (s, a), v in sk.zero_prob.items()}, zero_reward={(s, f(a), n) for (s, a, n) in sk.zero_reward},
                explicit_lists=sk.explicit_lists)

def facade_modules():
    import msdm.core.mdp.tabularmdp as tm, msdm.core.mdp.tables as tb, msdm.core.table.table as tt, \
        msdm.core.mdp.tabularpolicy as tp, msdm.core.mdp.policy as pol
    return [tm, tb, tt, tp, pol]


def fw_facade(adj, *a, **kw):
    """scipy floyd_warshall on a Boolean adjacency: symbolic cells are concretised by forking, then the
    REAL scipy routine runs."""
    from scipy.sparse.csgraph import floyd_warshall as real_fw
    adj = _np.asarray(adj)
    if adj.dtype == object:
        adj = concretise_mask(adj)
    from symrun.npf import SymArray
    return real_fw(adj, *a, **kw).astype(object).view(SymArray)


@contextlib.contextmanager
def facades(*extra_modules):
    """np / floyd_warshall facades in every repo module that touches MDP arrays (symbolic mode only)."""
    if not S.symbolic():
        yield
        return
    specs = []
    for m in facade_modules() + list(extra_modules):
        repl = {}
        if 'np' in m.__dict__:
            repl['np'] = NP
        if 'floyd_warshall' in m.__dict__:
            repl['floyd_warshall'] = fw_facade
        repl['float'] = S.FLOAT
        specs.append((m, repl))
    with patched(*specs):
        yield


class View:
    """the leaves of one MDP instance"""
    pass


def _generic_simplex(rnd, k):
    from fractions import Fraction
    ws = rnd.sample([1, 2, 3, 4, 5, 7, 9, 11], k)
    return [S.const(Fraction(w, sum(ws))) for w in ws]


def make_mdp(skel, tag='m', gamma='sym', reward_sign=None, kind='dict', numeric='sym', nseed=0):
    """returns (mdp, view).  gamma: 'sym' -> leaf in (0,1); 'one' -> 1.0 ; a number -> that number.
    numeric='generic': probabilities / discount are concrete 'generic' rationals drawn from nseed (rewards stay
    symbolic) -- keeps every VC linear; stated as part of the bound of tier B."""
    from fractions import Fraction
    grnd = _random.Random('%s/%s/%s' % (skel.name, tag, nseed))
    from msdm.core.mdp.tabularmdp import TabularMarkovDecisionProcess
    from msdm.core.distributions import DictDistribution, DeterministicDistribution, UniformDistribution
    v = View()
    v.skel = skel
    v.T = {}
    v.R = {}
    for s in skel.states:
        for a in skel.actions.get(s, ()):
            sup = skel.supp[(s, a)]
            if len(sup) == 1:
                v.T[(s, a, sup[0])] = 1.0
            else:
                ps = S.simplex(['%s_T_%s_%s_%s' % (tag, s, a, n) for n in sup]) if numeric == 'sym' \
                    else _generic_simplex(grnd, len(sup))
                for n, p in zip(sup, ps):
                    v.T[(s, a, n)] = p
            for n in skel.zero_prob.get((s, a), ()):
                v.T[(s, a, n)] = 0.0
            for n in list(sup) + list(skel.zero_prob.get((s, a), ())):
                if (s, a, n) in skel.zero_reward:
                    v.R[(s, a, n)] = 0.0
                elif reward_sign == 'nonpos':
                    v.R[(s, a, n)] = S.real('%s_R_%s_%s_%s' % (tag, s, a, n), None, 0)
                else:
                    v.R[(s, a, n)] = S.real('%s_R_%s_%s_%s' % (tag, s, a, n))
    if len(skel.init) == 1:
        v.p0 = {skel.init[0]: 1.0}
    else:
        ps = S.simplex(['%s_p0_%s' % (tag, s) for s in skel.init]) if numeric == 'sym' \
            else _generic_simplex(grnd, len(skel.init))
        v.p0 = dict(zip(skel.init, ps))
    if gamma == 'sym' and numeric == 'generic':
        v.gamma = S.const(grnd.choice([Fraction(9, 10), Fraction(1, 2), Fraction(19, 20), Fraction(3, 4)]))
    elif gamma == 'sym':
        v.gamma = S.real('%s_gamma' % tag, 0, 1, lo_strict=True, hi_strict=True)
    elif gamma == 'one':
        v.gamma = 1.0
    else:
        v.gamma = gamma

    class SkelMDP(TabularMarkovDecisionProcess):
        discount_rate = v.gamma

        def next_state_dist(self, s, a):
            sup = list(skel.supp[(s, a)]) + list(skel.zero_prob.get((s, a), ()))
            if kind == 'det' and len(sup) == 1:
                return DeterministicDistribution(sup[0])
            return DictDistribution({n: v.T[(s, a, n)] for n in sup})

        def reward(self, s, a, ns):
            return v.R[(s, a, ns)]

        def actions(self, s):
            return skel.actions.get(s, ())

        def initial_state_dist(self):
            return DictDistribution(dict(v.p0))

        def is_absorbing(self, s):
            return s in skel.absorbing

    mdp = SkelMDP()
    if skel.explicit_lists:
        mdp._state_list = tuple(skel.states)
        mdp._action_list = tuple(skel.action_list)
    v.mdp = mdp
    return mdp, v


# ---------------------------------------------------------------------------------------------------
# specification functions (from the property statements)
# ---------------------------------------------------------------------------------------------------
def spec_T(v, s, a, n):
    return v.T.get((s, a, n), 0.0)


def spec_abs(v, s):
    """absorbing: explicitly marked, or 'has an action, every available action self-loops with probability 1
    and every reward is 0' (Clause)."""
    sk = v.skel
    if s in sk.absorbing:
        return S.true()
    acts = sk.actions.get(s, ())
    if not acts:
        return S.false()
    cl = []
    for a in acts:
        if tuple(sk.supp[(s, a)]) != (s,):
            return S.false()
        for n in list(sk.supp[(s, a)]) + list(sk.zero_prob.get((s, a), ())):
            cl.append(S.eq(v.R[(s, a, n)], 0) if (n == s) else S.true())
    return S.And(cl)


def spec_can_reach_abs(v):
    """s -> Clause: some path of positive-probability available transitions from s reaches an absorbing state"""
    sk = v.skel
    X = {s: spec_abs(v, s) for s in sk.states}
    for _ in range(len(sk.states)):
        X = {s: S.Or([X[s]] + [X[n] for a in sk.actions.get(s, ()) for n in sk.supp[(s, a)]]) for s in sk.states}
    return X


def spec_trap_value(v):
    """undiscounted, non-positive rewards: the TRUE optimal value of a state n that can never reach an absorbing state is
    -inf if every reward obtainable from it is strictly negative and 0 if all are zero.  Returns n -> (neg Clause, zero Clause)."""
    sk = v.skel
    reach = {s: {s} for s in sk.states}
    for _ in range(len(sk.states)):
        for s in sk.states:
            for a in sk.actions.get(s, ()):
                for n in sk.supp[(s, a)]:
                    reach[s] |= reach[n]
    out = {}
    for s in sk.states:
        rs = [v.R[(x, a, n)] for x in reach[s] for a in sk.actions.get(x, ()) for n in sk.supp[(x, a)]]
        out[s] = (S.And([S.lt(r, 0) for r in rs]), S.And([S.eq(r, 0) for r in rs]))
    return out


def spec_Q(v, s, a, V):
    """Sigma_n T[s,a,n] * (R[s,a,n] + gamma * V[n])   (available a)"""
    sk = v.skel
    return S.Sum(v.T[(s, a, n)] * (v.R[(s, a, n)] + v.gamma * V[n]) for n in sk.supp[(s, a)])


def spec_isclose(a, b, rtol=1e-05, atol=1e-08):
    """numpy's isclose on reals: |a-b| <= atol + rtol*|b|  (boolean leaf, forks when tested)"""
    return abs(a - b) <= atol + rtol * abs(b)


# ---------------------------------------------------------------------------------------------------
# skeleton families
# ---------------------------------------------------------------------------------------------------
def family_basic(tier='quick', seed=0, dead_ends=False):
    F = []
    # one implicit absorbing state only
    F.append(Skel('s1-selfloop', ['g'], {'g': ('stay',)}, {('g', 'stay'): ('g',)}, init=['g']))
    # two states, state-dependent action sets, explicit absorbing
    F.append(Skel('s2-explicit', ['s', 'g'], {'s': ('a', 'b'), 'g': ('a',)},
                  {('s', 'a'): ('s', 'g'), ('s', 'b'): ('g',), ('g', 'a'): ('g',)}, absorbing=['g'], init=['s']))
    # falsy ACTION labels (0 is a legal action; `x or default` idioms hide here), the falsy one is not first in the state's action order
    F.append(Skel('s2-falsy-actions', ['s', 'g'], {'s': (1, 0), 'g': (0,)},
                  {('s', 0): ('s', 'g'), ('s', 1): ('g',), ('g', 0): ('g',)}, absorbing=['g'], init=['s']))
    # three states, stochastic branching, implicit absorbing goal, two initial states, action only in some states
    F.append(Skel('s3-branch', [0, 1, 2], {0: ('x', 'y'), 1: ('y',), 2: ('x',)},
                  {(0, 'x'): (0, 1), (0, 'y'): (1, 2), (1, 'y'): (0, 2), (2, 'x'): (2,)}, init=[0, 1]))
    if tier == 'thorough':
        F.append(Skel('s3-twogoals', ['a', 'b', 'c'], {'a': ('l', 'r'), 'b': ('l',), 'c': ('l', 'r')},
                      {('a', 'l'): ('b',), ('a', 'r'): ('a', 'c'), ('b', 'l'): ('b',), ('c', 'l'): ('c',), ('c', 'r'): ('c',)},
                      absorbing=['b'], init=['a', 'c']))
        F.append(Skel('s4-grid', [(0, 0), (0, 1), (1, 0), (1, 1)],
                      {(0, 0): ('r', 'd'), (0, 1): ('d',), (1, 0): ('r',), (1, 1): ('r',)},
                      {((0, 0), 'r'): ((0, 1), (0, 0)), ((0, 0), 'd'): ((1, 0),), ((0, 1), 'd'): ((1, 1), (0, 1)),
                       ((1, 0), 'r'): ((1, 1),), ((1, 1), 'r'): ((1, 1),)}, absorbing=[(1, 1)], init=[(0, 0)]))
        rnd = _random.Random(seed)
        for k in range(3):
            n = rnd.choice([2, 3])
            st = list(range(n))
            acts = {s: tuple(rnd.sample(['u', 'v'], rnd.choice([1, 2]))) for s in st}
            supp = {(s, a): tuple(sorted(rnd.sample(st, rnd.choice([1, 2]) if n > 1 else 1))) for s in st for a in acts[s]}
            for a in acts[st[-1]]:
                supp[(st[-1], a)] = (st[-1],)     # well-formed: the absorbing state only leads to listed states (the other case is finding F14)
            F.append(Skel('rand%d-%d' % (seed, k), st, acts, supp, absorbing=[st[-1]], init=[0]))
    return F


def basic(name):
    """a skeleton of the basic family by NAME (positions change when the family grows)"""
    return [s for s in family_basic('thorough') if s.name == name][0]


def family_undiscounted(tier='quick'):
    F = []
    # trap: state 't' can never reach the goal (self-loop with reward leaf), 's' can go to goal or trap
    F.append(Skel('u3-trap', ['s', 't', 'g'], {'s': ('go', 'fall'), 't': ('go',), 'g': ('go',)},
                  {('s', 'go'): ('g', 's'), ('s', 'fall'): ('t',), ('t', 'go'): ('t',), ('g', 'go'): ('g',)},
                  absorbing=['g'], init=['s']))
    # trap with two available actions out of three listed ones (placeholder states must not put mass on unavailable actions)
    F.append(Skel('u4-trap2', ['s', 't', 'u', 'g'], {'s': ('go', 'fall', 'hop'), 't': ('go', 'fall'), 'u': ('go',), 'g': ('go',)},
                  {('s', 'go'): ('g',), ('s', 'fall'): ('t',), ('s', 'hop'): ('s', 'g'), ('t', 'go'): ('t', 'u'), ('t', 'fall'): ('u',),
                   ('u', 'go'): ('t',), ('g', 'go'): ('g',)}, absorbing=['g'], init=['s']))
    # a never-absorbing state inside the support of the initial distribution
    F.append(Skel('u3-trap-in-init', ['s', 't', 'g'], {'s': ('go',), 't': ('go', 'stay'), 'g': ('go',)},
                  {('s', 'go'): ('g', 's'), ('t', 'go'): ('t',), ('t', 'stay'): ('t',), ('g', 'go'): ('g',)},
                  absorbing=['g'], init=['s', 't']))
    F.append(Skel('u2-plain', ['s', 'g'], {'s': ('a', 'b'), 'g': ('a',)},
                  {('s', 'a'): ('s', 'g'), ('s', 'b'): ('g',), ('g', 'a'): ('g',)}, absorbing=['g'], init=['s']))
    return F


def _dc(c):
    """truth value of a clause on this path (forks in symbolic mode)"""
    if S.symbolic():
        return bool(S.mk_bool(c.exact))
    return bool(c.concrete)
