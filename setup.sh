#!/bin/sh
# Builds /verif/.venv offline: python 3.12 (from /venv) + z3-solver, cvc5, jsonschema from the wheelhouse,
# with a .pth onto /venv's site-packages so numpy/scipy/torch and the editable msdm install are visible.
set -e
cd "$(dirname "$0")"
if [ -x .venv/bin/python ] && .venv/bin/python -c "import z3, numpy, msdm, jsonschema" 2>/dev/null; then
  echo "setup: .venv already usable"; exit 0
fi
rm -rf .venv
/venv/bin/python -m venv .venv
PIP_NO_INDEX=1 .venv/bin/pip install -q --no-index --find-links /opt/veriftools/wheels z3-solver cvc5 jsonschema
SP=$(.venv/bin/python -c "import sysconfig; print(sysconfig.get_paths()['purelib'])")
echo "import site; site.addsitedir('/venv/lib/python3.12/site-packages')" > "$SP/zz_repo_venv.pth"
.venv/bin/python -c "import z3, numpy, msdm, jsonschema, sys; print('setup ok', z3.get_version_string(), numpy.__version__, msdm.__file__)"
