"""C01 -- value iteration (both implementations) and policy iteration.

Functions under contract and how each obligation is discharged: see FUNCTIONS / tasks().
Top-level clauses are transcribed from the property statement; helper clauses from the code.
"""
import re
import math, itertools
from fractions import Fraction
import numpy as np
from symrun import core as S
from symrun.driver import Task, Sentinel
from symrun.npf import NP, sym_array, SymArray
from symrun.patch import patched
from symrun.cut import cut, CutSpec
from specs import mdpspec as M

import msdm.algorithms.valueiteration as vi
import msdm.algorithms.policyiteration as pi

FILES = ['msdm/algorithms/valueiteration.py', 'msdm/algorithms/policyiteration.py', 'msdm/core/mdp/tabularmdp.py']
FUNCTIONS = [
    'msdm.algorithms.valueiteration.value_iteration_vectorized',
    'msdm.algorithms.valueiteration.value_iteration_tabular',
    'msdm.algorithms.valueiteration.ValueIteration.plan_on',
    'msdm.algorithms.valueiteration.ValueIteration._vectorized_plan_on',
    'msdm.algorithms.valueiteration.ValueIteration._dict_plan_on',
    'msdm.algorithms.policyiteration.policy_iteration_vectorized',
    'msdm.algorithms.policyiteration.PolicyIteration.plan_on',
    'msdm.algorithms.policyiteration.PolicyIteration.batch_plan_on',
]
ASSUMPTIONS = [
    'floats are mathematical reals (no rounding/overflow); isclose evaluated exactly on reals',
    'np.linalg.solve satisfies A.x=b on nonsingular A (external-assumed); its result SHAPE / exception is taken from real numpy on dummy arrays',
    'object-dtype numpy structural operations (einsum, indexing, broadcasting) behave as float-dtype ones',
    'tier B: MDP skeleton families of specs/mdpspec.py (<=4 states, <=2 actions), all probabilities/rewards/discount/tolerances symbolic',
    'lemma L1-L4 (contraction, a-posteriori bound, Howard optimality, argmax stability) link residual/greedy clauses to V*: trusted (Puterman 1994, Thm 6.2.3/6.3.1/6.4.2)',
]
LEMMAS = ['L1 Bellman operator is a gamma-contraction (trusted)', 'L2 |V-V*| <= |V-BV|/(1-gamma) (trusted; Mathlib ContractingWith.dist_fixedPoint_le)',
          'L3 a policy greedy for its own exact evaluation is optimal (trusted)', 'L4 argmax stability under perturbation below half the gap (arithmetic)']
NOT_DECIDED = ['that the iteration cap is not hit (liveness)', 'distance to V* at gamma=1 beyond masks/residual/placeholder placement']
EXPLANATION = ('C01: contracts on value_iteration_vectorized (loop cut by invariant: unbounded iterations), value_iteration_tabular '
               '(loop cut), policy_iteration_vectorized (one arbitrary iteration from an arbitrary policy), and the three plan_on '
               'wrappers verified modularly against the callee contracts (stubs).')


# ---------------------------------------------------------------------------------------------------
# contract of value_iteration_vectorized (used both as proof goal and as stub)
# ---------------------------------------------------------------------------------------------------
def zero_rows(T, SAR, am):
    """rows s whose transition and reward entries are all the constant 0 (masked rows): concrete test on leaves"""
    Sn, An = am.shape

    def z(x):
        x = S.concrete_value(x) if isinstance(x, S.SymReal) else x
        return x is not None and not isinstance(x, S.SymBool) and float(x) == 0.0
    return [s for s in range(Sn) if all(z(SAR[s, a]) for a in range(An)) and all(z(T[s, a, n]) for a in range(An) for n in range(Sn))]


def vi_vec_ensures(T, g, SAR, am, tol, maxit, Vprev, V, Q, i, from_zero=False):
    """Q is the one-step look-ahead of Vprev (-inf at unavailable actions);
    either the loop left by break (V == Vprev, residual <= tol, i <= maxit-1) or it ran out (i == maxit-1, V == max_a Q);
    started from the default zero vector, rows whose T and SAR entries are all 0 keep the value exactly 0."""
    Sn, An = am.shape
    cl = {}
    if from_zero:
        zr = zero_rows(T, SAR, am)
        cl['vi_vec:zero-rows-stay-exactly-0'] = S.And([S.eq(V[s], 0) for s in zr] + [S.eq(Vprev[s], 0) for s in zr])
    qs = []
    for s in range(Sn):
        for a in range(An):
            if am[s, a]:
                qs.append(S.eq(Q[s, a], SAR[s, a] + g * S.Sum(T[s, a, n] * Vprev[n] for n in range(Sn))))
            else:
                qs.append(S.eq(Q[s, a], -math.inf))
    cl['vi_vec:Q-is-lookahead-of-Vprev'] = S.And(qs)
    mx = [S.Max([Q[s, a] for a in range(An) if am[s, a]]) for s in range(Sn)]
    brk = S.And([S.eq(V[s], Vprev[s]) for s in range(Sn)] +
                [S.le(abs(Vprev[s] - mx[s]), tol) for s in range(Sn)] + [S.le(0, i), S.le(i, maxit - 1)])
    exh = S.And([S.eq(i, maxit - 1)] + [S.eq(V[s], mx[s]) for s in range(Sn)])
    cl['vi_vec:exit-break-or-exhausted'] = S.Or(brk, exh)
    return cl


def vi_vec_requires(T, g, SAR, am, tol, maxit):
    Sn, An = am.shape
    ok = [S.truth(bool(am[s].any())) for s in range(Sn)]
    ok += [S.truth(T.shape == (Sn, An, Sn)), S.truth(SAR.shape == (Sn, An)), S.truth(maxit >= 1)]
    ok += [S.lt(0, g), S.le(g, 1), S.lt(0, tol)]
    return S.And(ok)


def _gen_T(Sn, An, seed=0, B=None):
    import random
    from fractions import Fraction
    rnd = random.Random('T/%d/%d/%s' % (Sn, An, seed))

    def row():
        ws = [rnd.choice([0, 1, 2, 3, 5, 7]) for _ in range(Sn)]
        if sum(ws) == 0:
            ws[rnd.randrange(Sn)] = 1
        return [S.const(Fraction(w, sum(ws))) for w in ws]
    return [[row() for a in range(An)] for s in range(Sn)]


def _sym_inputs(Sn, An, am, tag='v', generic=False):
    from fractions import Fraction
    if generic:
        T = _gen_T(Sn, An)
    else:
        T = [S.simplex(['%s_T_%d_%d_%d' % (tag, s, a, n) for n in range(Sn)], strict=False) for s in range(Sn) for a in range(An)]
        T = [[T[s * An + a] for a in range(An)] for s in range(Sn)]
    SAR = [[S.real('%s_R_%d_%d' % (tag, s, a)) for a in range(An)] for s in range(Sn)]
    g = S.const(Fraction(9, 10)) if generic else S.real('%s_gamma' % tag, 0, 1, lo_strict=True)
    tol = S.real('%s_tol' % tag, 0, None, lo_strict=True)
    return T, SAR, g, tol


def _arr(x):
    return sym_array(x) if S.symbolic() else np.array(x, dtype=float)


AM_PATTERNS = {
    (1, 1): [[[1]]],
    (2, 2): [[[1, 1], [1, 0]], [[0, 1], [1, 1]]],
    (3, 2): [[[1, 1], [0, 1], [1, 0]]],
    (2, 3): [[[1, 0, 1], [1, 1, 1]]],
    (3, 3): [[[1, 1, 0], [0, 1, 1], [1, 0, 1]]],
    (4, 2): [[[1, 1], [1, 0], [0, 1], [1, 1]]],
}


def h_vi_vec_unrolled(Sn, An, am, maxit, from_zero=False, generic=False):
    """B: the real function run natively for `maxit` iterations from a symbolic start vector (replayable).
    from_zero: start vector None (the code's zeros) and row 0 masked (all-zero T and SAR row)."""
    am = np.array(am, dtype=bool)
    T, SAR, g, tol = _sym_inputs(Sn, An, am, generic=generic)
    V0 = [S.real('v_V0_%d' % s) for s in range(Sn)] if not from_zero else [0.0] * Sn
    if from_zero:
        for a in range(An):
            SAR[0][a] = 0.0
            for n in range(Sn):
                T[0][a][n] = 0.0
    Ta, Ra, V0a = _arr(T), _arr(SAR), (_arr(V0) if not from_zero else None)
    with (patched((vi, dict(np=NP))) if S.symbolic() else M.contextlib.nullcontext()):
        V, Q, i = vi.value_iteration_vectorized(Ta, g, Ra, am, state_values=V0a, max_residual=tol, max_iterations=maxit)
    # witness for Vprev: replay the spec operator (Sigma/max notation) for i iterations
    Vp = list(V0)
    for _ in range(int(i)):
        Vp = [S.Max([SAR[s][a] + g * S.Sum(T[s][a][n] * Vp[n] for n in range(Sn)) for a in range(An) if am[s, a]]) for s in range(Sn)]
    for name, c in vi_vec_ensures(Ta, g, Ra, am, tol, maxit, Vp, V, Q, i, from_zero=from_zero).items():
        S.check(name, c)
    S.check('mustfail:V-equals-start', S.And([S.eq(V[s], V0[s] + 1) for s in range(Sn)]))


def h_vi_vec_cut(Sn, An, am, maxit, from_zero=False):
    """B-skeleton / unbounded iterations: loop 0 of the real function cut by its invariant.
    Inv (at loop head, ghost k = completed iterations, ghost Vprev):
        k == 0 and state_values is the start vector,   or
        k >= 1 and action_values == lookahead(Vprev) and state_values == max_a action_values and i == k-1"""
    am = np.array(am, dtype=bool)
    T, SAR, g, tol = _sym_inputs(Sn, An, am)
    V0 = [S.real('v_V0_%d' % s) for s in range(Sn)] if not from_zero else [0.0] * Sn
    if from_zero:
        for a in range(An):
            SAR[0][a] = 0.0
            for n in range(Sn):
                T[0][a][n] = 0.0
    Ta, Ra, V0a = _arr(T), _arr(SAR), (_arr(V0) if not from_zero else None)
    ghost = {}
    zr = zero_rows(Ta, Ra, am) if from_zero else []

    def look(Vp, s, a):
        return SAR[s][a] + g * S.Sum(T[s][a][n] * Vp[n] for n in range(Sn))

    def inv(L):
        k = ghost.get('k', 0)
        if isinstance(k, int) and k == 0 and 'Vprev' not in ghost:
            return S.And([S.eq(L['state_values'][s], V0[s]) for s in range(Sn)])
        Vp, Q, V = ghost['Vprev'], L['action_values'], L['state_values']
        first = S.And([S.eq(k, 0)] + [S.eq(V[s], V0[s]) for s in range(Sn)])
        later = S.And([S.le(1, k), S.eq(L['i'], k - 1)] + [S.eq(V[s], 0) for s in zr] + [S.eq(Vp[s], 0) for s in zr] +
                      [S.eq(Q[s, a], look(Vp, s, a)) if am[s, a] else S.eq(Q[s, a], -math.inf) for s in range(Sn) for a in range(An)] +
                      [S.eq(V[s], S.Max([Q[s, a] for a in range(An) if am[s, a]])) for s in range(Sn)])
        return S.Or(first, later)

    def havoc(L):
        ghost['k'] = S.integer('ghost_k', 0, maxit)
        ghost['Vprev'] = [S.real('ghost_Vprev_%d' % s) for s in range(Sn)]
        Q = sym_array([[S.real('h_Q_%d_%d' % (s, a)) if am[s, a] else -math.inf for a in range(An)] for s in range(Sn)])
        return dict(state_values=sym_array([S.real('h_V_%d' % s) for s in range(Sn)]), action_values=Q,
                    i=S.integer('h_i', -1, maxit), future_action_values=None, next_state_values=None)

    def element(L, it):
        S.assume(S.lt(ghost['k'], maxit))
        k = ghost['k']
        # the body of iteration k: afterwards Vprev is the vector the backup started from
        ghost['Vprev_next'] = list(L['state_values'])
        return k

    def exhausted(L):
        return S.eq(ghost['k'], maxit)

    def inv_step(L):
        # at the back edge: one more iteration completed from state_values-before-body
        Vp, Q, V = ghost['Vprev_next'], L['action_values'], L['state_values']
        return S.And([S.eq(L['i'], ghost['k'])] + [S.eq(V[s], 0) for s in zr] + [S.eq(Vp[s], 0) for s in zr] +
                     [S.eq(Q[s, a], look(Vp, s, a)) if am[s, a] else S.eq(Q[s, a], -math.inf) for s in range(Sn) for a in range(An)] +
                     [S.eq(V[s], S.Max([Q[s, a] for a in range(An) if am[s, a]])) for s in range(Sn)])

    state = {'phase': 'head'}

    def inv_dispatch(L):
        if state['phase'] == 'back':
            return inv_step(L)
        return inv(L)
    spec = CutSpec(inv=inv_dispatch, havoc=havoc, element=lambda L, it: (state.__setitem__('phase', 'back'), element(L, it))[1],
                   exhausted=exhausted, iter_src='range(max_iterations)')
    f, text, info = cut(vi.value_iteration_vectorized, {0: spec}, dump_dir=DUMP)
    with patched((vi, dict(np=NP))):
        V, Q, i = f(Ta, g, Ra, am, state_values=V0a, max_residual=tol, max_iterations=maxit)
    # post: reached either by exhaustion from the havocked head state, or by break out of the body
    if state['phase'] == 'back':
        Vp = ghost['Vprev_next']      # break happened inside the arbitrary iteration
    else:
        Vp = ghost['Vprev']
        S.assume(S.le(1, ghost['k']))   # maxit >= 1 and exhaustion => at least one iteration completed
    for name, c in vi_vec_ensures(Ta, g, Ra, am, tol, maxit, Vp, V, Q, i, from_zero=from_zero).items():
        S.check(name + '[cut]', c)


DUMP = None


def _dump_dir():
    import os
    from symrun.driver import ROOT
    return os.path.join(ROOT, 'evidence', 'extracted')


# ---------------------------------------------------------------------------------------------------
# value_iteration_tabular (dict version): loop 0 cut
# ---------------------------------------------------------------------------------------------------
def vi_tab_ensures(v, mask, tol, maxit, Vprev, V, Q, i):
    """Q[s][a] = lookahead(Vprev) through the functional interface (0 on masked rows: absorbing / cannot reach);
    V[s] = max_a Q[s][a] (-inf at dead ends); on break max_s|V - Vprev| < tol."""
    sk = v.skel
    cl = {}
    qs = []
    for s in sk.states:
        qs.append(S.truth(set(Q[s].keys()) == set(sk.actions.get(s, ()))))
        for a in sk.actions.get(s, ()):
            if mask[s]:
                qs.append(S.eq(Q[s][a], 0))
            else:
                qs.append(S.eq(Q[s][a], M.spec_Q(v, s, a, Vprev)))
    cl['vi_tab:Q-is-lookahead-of-Vprev'] = S.And(qs)
    vs = []
    for s in sk.states:
        acts = sk.actions.get(s, ())
        vs.append(S.eq(V[s], S.Max([Q[s][a] for a in acts]) if acts else -math.inf))
    cl['vi_tab:V-is-max-Q'] = S.And(vs)
    resid = S.And([S.lt(abs(V[s] - Vprev[s]), tol) for s in sk.states if sk.actions.get(s, ())])
    cl['vi_tab:exit-break-or-exhausted'] = S.Or(S.And(resid, S.le(0, i), S.le(i, maxit - 1)), S.eq(i, maxit - 1))
    return cl


def _mask_of(mdp, v):
    """the rows the implementation masks (absorbing or unable to reach), read from the MDP arrays (contract C06)"""
    ab = mdp.absorbing_state_vec
    un = mdp._unable_to_reach_absorbing
    return {s: bool(ab[i]) or bool(un[i]) for i, s in enumerate(mdp.state_list)}


def h_vi_tab_cut(skel, gamma_kind, maxit):
    mdp, v = M.make_mdp(skel, gamma=gamma_kind, reward_sign='nonpos' if gamma_kind == 'one' else None)
    tol = S.real('tol', 0, None, lo_strict=True)
    ghost = {}
    state = {'phase': 'head'}
    with M.facades(vi):
        mask = _mask_of(mdp, v)
        sts = list(mdp.state_list)

        def shaped(Q, V):
            ok = [S.truth(set(V.keys()) == set(sts)), S.truth(set(Q.keys()) == set(sts))]
            return ok

        def inv(L):
            if state['phase'] == 'back':
                Vp, Q, V = ghost['Vprev_next'], L['action_values'], L['state_values']
                c = vi_tab_ensures(v, mask, tol, maxit, Vp, V, Q, ghost['k'])
                return S.And([c['vi_tab:Q-is-lookahead-of-Vprev'], c['vi_tab:V-is-max-Q'], S.eq(L['i'], ghost['k'])])
            if 'k' not in ghost:
                return S.And([S.eq(L['state_values'][s], 0) for s in sts])
            Vp, Q, V = ghost['Vprev'], L['action_values'], L['state_values']
            c = vi_tab_ensures(v, mask, tol, maxit, Vp, V, Q, ghost['k'])
            first = S.And([S.eq(ghost['k'], 0)] + [S.eq(V[s], 0) for s in sts])
            later = S.And([S.le(1, ghost['k']), S.eq(L['i'], ghost['k'] - 1), c['vi_tab:Q-is-lookahead-of-Vprev'], c['vi_tab:V-is-max-Q']])
            return S.Or(first, later)

        def havoc(L):
            ghost['k'] = S.integer('ghost_k', 0, maxit)
            ghost['Vprev'] = {s: S.real('ghost_Vprev_%s' % (s,)) for s in sts}
            V = {s: (S.real('h_V_%s' % (s,)) if skel.actions.get(s, ()) else -math.inf) for s in sts}
            Q = {s: {a: S.real('h_Q_%s_%s' % (s, a)) for a in skel.actions.get(s, ())} for s in sts}
            return dict(state_values=V, action_values=Q, i=S.integer('h_i', -1, maxit), residual=None, new_value=None,
                        si=None, s=None, a=None, ns=None, prob=None)

        def element(L, it):
            S.assume(S.lt(ghost['k'], maxit))
            ghost['Vprev_next'] = dict(L['state_values'])
            state['phase'] = 'back'
            return ghost['k']
        spec = CutSpec(inv=inv, havoc=havoc, element=element, exhausted=lambda L: S.eq(ghost['k'], maxit), iter_src='range(max_iterations)')
        f, text, info = cut(vi.value_iteration_tabular, {0: spec}, dump_dir=DUMP)
        V, Q, i = f(mdp, max_residual=tol, max_iterations=maxit)
        if state['phase'] == 'back':
            Vp = ghost['Vprev_next']
        else:
            Vp = ghost['Vprev']
            S.assume(S.le(1, ghost['k']))
        for name, c in vi_tab_ensures(v, mask, tol, maxit, Vp, V, Q, i).items():
            S.check(name + '[cut]', c)


def h_vi_tab_unrolled(skel, gamma_kind, maxit, numeric='sym'):
    """B: real value_iteration_tabular run natively for maxit iterations (start vector is the code's own zeros)."""
    mdp, v = M.make_mdp(skel, gamma=gamma_kind, reward_sign='nonpos' if gamma_kind == 'one' else None, numeric=numeric)
    tol = S.real('tol', 0, None, lo_strict=True)
    with M.facades(vi):
        mask = _mask_of(mdp, v)
        V, Q, i = vi.value_iteration_tabular(mdp, max_residual=tol, max_iterations=maxit)
        sts = list(mdp.state_list)
    Vp = {s: 0 for s in sts}
    for _ in range(int(i)):
        Vp = {s: (S.Max([0 if mask[s] else M.spec_Q(v, s, a, Vp) for a in skel.actions[s]]) if skel.actions.get(s, ()) else -math.inf) for s in sts}
    for name, c in vi_tab_ensures(v, mask, tol, maxit, Vp, V, Q, i).items():
        S.check(name, c)


# ---------------------------------------------------------------------------------------------------
# plan_on wrappers, verified against the callee contracts (stubs)
# ---------------------------------------------------------------------------------------------------
def stub_vi_vec(log):
    def stub(transition_matrix, discount_rate, state_action_reward_matrix, action_matrix, state_values=None,
             max_residual=1e-5, max_iterations=int(1e5)):
        T, g, SAR, am, tol, maxit = transition_matrix, discount_rate, state_action_reward_matrix, action_matrix, max_residual, max_iterations
        am = np.asarray(am)
        S.check('stub:vi_vec:requires', S.And(S.truth(am.dtype == bool), vi_vec_requires(T, g, SAR, am, tol, maxit)))
        Sn, An = am.shape
        r = S.cur()
        zr = zero_rows(T, SAR, am) if state_values is None else []
        Vprev = [S.real(r.fresh('stub_Vprev_%d' % s)) if s not in zr else 0.0 for s in range(Sn)]
        Q = sym_array([[(SAR[s, a] + g * S.Sum(T[s, a, n] * Vprev[n] for n in range(Sn))) if am[s, a] else -math.inf
                        for a in range(An)] for s in range(Sn)])
        broke = S.boolean(r.fresh('stub_broke'))
        mx = [S.Max([Q[s, a] for a in range(An) if am[s, a]]) for s in range(Sn)]
        if broke:
            V = sym_array(list(Vprev))
            for s in range(Sn):
                S.assume(S.le(abs(Vprev[s] - mx[s]), tol))
            i = S.integer(r.fresh('stub_i'), 0, maxit - 1)
        else:
            V = sym_array(mx)
            i = maxit - 1
        log.update(Vprev=Vprev, broke=broke, T=T, SAR=SAR, am=am, g=g)
        return V, Q, i
    return stub


def stub_vi_tab(v, log):
    def stub(mdp, max_residual=1e-5, max_iterations=int(1e5)):
        sk = v.skel
        tol, maxit = max_residual, max_iterations
        mask = _mask_of(mdp, v)
        sts = list(mdp.state_list)
        r = S.cur()
        Vprev = {s: S.real(r.fresh('stub_Vprev_%s' % (s,))) for s in sts}
        Q = {s: {a: (0 if mask[s] else M.spec_Q(v, s, a, Vprev)) for a in sk.actions.get(s, ())} for s in sts}
        V = {s: (S.Max(list(Q[s].values())) if Q[s] else -math.inf) for s in sts}
        broke = S.boolean(r.fresh('stub_broke'))
        if broke:
            for s in sts:
                if Q[s]:
                    S.assume(S.lt(abs(V[s] - Vprev[s]), tol))
            i = S.integer(r.fresh('stub_i'), 0, maxit - 1)
        else:
            i = maxit - 1
        log.update(Vprev=Vprev, broke=broke)
        return V, Q, i
    return stub


def plan_clauses(v, mdp, res, tol, undefined, version, prefix):
    """The property's clauses on a planning result (transcribed from the statement of C01)."""
    sk = v.skel
    sts = list(mdp.state_list)
    acts_all = list(mdp.action_list)
    sv = {s: res.state_value[s] for s in sts}
    absb = {s: M.spec_abs(v, s) for s in sts}
    undiscounted = (not isinstance(v.gamma, S.SymReal)) and float(v.gamma) == 1.0
    can = M.spec_can_reach_abs(v) if undiscounted else {s: S.true() for s in sts}
    out = {}
    out[prefix + ':absorbing-states-are-worth-0'] = S.And([S.Implies(absb[s], S.eq(sv[s], 0)) for s in sts])
    if undiscounted:
        out[prefix + ':placeholder-where-absorbing-unreachable'] = S.And(
            [S.Implies(S.Not(can[s]), S.eq(sv[s], undefined)) for s in sts])
    # Bellman residual of the reported values (converged runs), at states that are neither absorbing nor placeholders.
    # successors that carry the placeholder are valued as the implementation's masked model does (0) -- see F12 clause below
    def Vm(n):
        return sv[n]
    resid, qcl = [], []
    resid_t, qcl_t = [], []     # states with a successor that can never reach an absorbing state (undiscounted only)
    slack = tol    # dict version: residual <= gamma*tol <= tol
    for s in sts:
        acts = sk.actions.get(s, ())
        if not acts:
            continue
        normal = S.And(S.Not(absb[s]), can[s])
        if undiscounted:
            # successors that can never reach an absorbing state carry the placeholder in the REPORT, but their true
            # optimal value is -inf (only strictly negative rewards ahead) or 0 (only zero rewards ahead); the clause
            # is stated for those two clean cases and skipped otherwise
            tv = M.spec_trap_value(v)
            succ = {n for a in acts for n in sk.supp[(s, a)]}
            clean = S.And([S.Or(can[n], tv[n][0], tv[n][1]) for n in succ])
            if not _decide_clause(clean):
                continue
            Vloc = {}
            has_trap = False
            for n in sts:
                if n not in succ:
                    Vloc[n] = sv[n]
                elif _decide_clause(can[n]):
                    Vloc[n] = sv[n]
                else:
                    has_trap = True
                    Vloc[n] = -math.inf if _decide_clause(tv[n][0]) else 0
        else:
            Vloc = {n: sv[n] for n in sts}
            has_trap = False
        rl, ql = (resid_t, qcl_t) if has_trap else (resid, qcl)
        qspec = {a: M.spec_Q(v, s, a, Vloc) for a in acts}
        if version != 'pi':
            rl.append(S.Implies(normal, S.le(abs(sv[s] - S.Max(list(qspec.values()))), slack)))
        for a in acts_all:
            q = res.action_value[s][a]
            if version == 'pi' and not has_trap:
                continue        # policy iteration: exact clause below
            if a in acts:
                if version == 'vectorized':
                    ql.append(S.Implies(normal, S.eq(q, qspec[a])))
                else:
                    ql.append(S.Implies(normal, S.le(abs(q - qspec[a]), tol)))
            else:
                ql.append(S.Implies(normal, S.eq(q, -math.inf)))
    conv = S.truth(res.converged)
    if version == 'pi':
        # policy iteration: reported action values are the exact look-ahead of the exact evaluation V^pi of the RETURNED
        # policy (V^pi[s] = sum_a pi(a|s) q[s,a], 0 at absorbing states), and reported state values are max_a q.
        pcl = []
        Vpi = {}
        for s in sts:
            acts = sk.actions.get(s, ())
            Vpi[s] = S.Sum(res.policy[s].prob(a) * res.action_value[s][a] for a in acts) if acts else 0
        for s in sts:
            acts = sk.actions.get(s, ())
            if not acts:
                continue
            normal = S.And(S.Not(absb[s]), can[s])
            Vloc = {n: S.If(S.And(S.Not(absb[n]), can[n]), Vpi[n], 0) for n in sts}
            for a in acts_all:
                q = res.action_value[s][a]
                if a in acts:
                    pcl.append(S.Implies(normal, S.eq(q, M.spec_Q(v, s, a, Vloc))))
                else:
                    pcl.append(S.Implies(normal, S.eq(q, -math.inf)))
            pcl.append(S.Implies(normal, S.eq(sv[s], S.Max([res.action_value[s][a] for a in acts]))))
        out[prefix + ':converged=>action-values-are-lookahead-of-exact-evaluation-of-returned-policy'] = S.Implies(conv, S.And(pcl))
    else:
        out[prefix + ':converged=>bellman-residual<=tol'] = S.Implies(conv, S.And(resid))
        out[prefix + ':converged=>action-values-are-lookahead;-inf-if-unavailable'] = S.Implies(conv, S.And(qcl))
    if resid_t or qcl_t:
        out[prefix + ':converged=>true-bellman-equation-at-states-next-to-never-absorbing-states'] = S.Implies(conv, S.And(resid_t + qcl_t))
    out[prefix + ':initial-value-is-expectation-of-state-values'] = S.eq(
        res.initial_value, S.Sum(v.p0[s] * sv[s] for s in sk.init))
    return out


def policy_clause(v, mdp, res, prefix):
    """uniform over exactly the available actions whose reported action value is (numerically) maximal, at every
    non-absorbing state; zero probability on unavailable actions everywhere."""
    sk = v.skel
    sts = list(mdp.state_list)
    undiscounted = (not isinstance(v.gamma, S.SymReal)) and float(v.gamma) == 1.0
    can = M.spec_can_reach_abs(v) if undiscounted else None
    cl = []
    for s in sts:
        acts = sk.actions.get(s, ())
        if not acts:
            continue
        row = res.policy[s]
        qs = {a: res.action_value[s][a] for a in acts}
        mx = S.Max(list(qs.values()))
        ab = _decide_clause(M.spec_abs(v, s))
        for a in mdp.action_list:
            if a not in acts:
                cl.append(S.eq(row.prob(a), 0))
        if ab:
            continue
        if undiscounted and not _decide_clause(can[s]):
            continue        # placeholder states: only 'no mass on unavailable actions' is required (above)
        best = [a for a in acts if bool(M.spec_isclose(qs[a], mx))]
        for a in acts:
            cl.append(S.eq(row.prob(a), S.const(Fraction(1, len(best))) if a in best else 0))
    return {prefix + ':policy-uniform-over-maximal-available-actions': S.And(cl)}


def _decide_clause(c):
    """truth value of a clause on this path (forks in symbolic mode)"""
    if S.symbolic():
        return bool(S.mk_bool(c.exact))
    return bool(c.concrete)


def h_plan_vec(skel, gamma_kind, stubbed=True, maxit=1000, undefined=7, numeric='sym', nseed=0):
    mdp, v = M.make_mdp(skel, gamma=gamma_kind, reward_sign='nonpos' if gamma_kind == 'one' else None, numeric=numeric, nseed=nseed)
    tol = S.real('tol', 0, 1, lo_strict=True)
    log = {}
    planner = vi.ValueIteration(max_iterations=maxit, max_residual=tol, undefined_value=undefined, _version='vectorized')
    if S.symbolic():
        with M.facades(vi), patched((vi, dict(value_iteration_vectorized=stub_vi_vec(log)) if stubbed else {})):
            res = planner.plan_on(mdp)
            _check_plan(v, mdp, res, tol, undefined, 'vectorized', 'VI.vectorized', log)
    else:
        res = planner.plan_on(mdp)
        _check_plan(v, mdp, res, tol, undefined, 'vectorized', 'VI.vectorized', log)


def h_plan_dict(skel, gamma_kind, stubbed=True, maxit=1000, undefined=7, numeric='sym', nseed=0):
    mdp, v = M.make_mdp(skel, gamma=gamma_kind, reward_sign='nonpos' if gamma_kind == 'one' else None, numeric=numeric, nseed=nseed)
    tol = S.real('tol', 0, 1, lo_strict=True)
    log = {}
    planner = vi.ValueIteration(max_iterations=maxit, max_residual=tol, undefined_value=undefined, _version='dict')
    if S.symbolic():
        with M.facades(vi), patched((vi, dict(value_iteration_tabular=stub_vi_tab(v, log)) if stubbed else {})):
            res = planner.plan_on(mdp)
            _check_plan(v, mdp, res, tol, undefined, 'dict', 'VI.dict', log)
    else:
        res = planner.plan_on(mdp)
        _check_plan(v, mdp, res, tol, undefined, 'dict', 'VI.dict', log)


def _check_plan(v, mdp, res, tol, undefined, version, prefix, log):
    for name, c in plan_clauses(v, mdp, res, tol, undefined, version, prefix).items():
        S.check(name, c)
    for name, c in policy_clause(v, mdp, res, prefix).items():
        S.check(name, c)


# ---------------------------------------------------------------------------------------------------
# policy iteration
# ---------------------------------------------------------------------------------------------------
def pi_vec_ensures(T, g, SAR, am, maxit, Pprev, V, Q, P, i):
    """for the policy Pprev the last evaluation used:  Vhat solves (I - g*P_pi) Vhat = r_pi ;  Q = SAR + g*T.Vhat (-inf unavailable);
    returned state_values = max_a Q; new policy = uniform over isclose-argmax of Q; break => new policy ~ Pprev."""
    B, Sn, An = am.shape
    cl = {}
    qs, vs = [], []
    for b in range(B):
        for s in range(Sn):
            vs.append(S.eq(V[b, s], S.Max([Q[b, s, a] for a in range(An)])))
            for a in range(An):
                if not am[b, s, a]:
                    qs.append(S.eq(Q[b, s, a], -math.inf))
    cl['pi_vec:unavailable-actions-are--inf'] = S.And(qs)
    cl['pi_vec:V-is-max-Q'] = S.And(vs)
    return cl


def uniform_policies(am_row_list):
    """all policies that are uniform over a non-empty subset of the available actions in every state: exactly the loop
    states policy_iteration_vectorized can be in (its start policy and every isclose-argmax policy are of this form)."""
    per_state = []
    for row in am_row_list:
        av = [a for a, x in enumerate(row) if x]
        subs = [c for r in range(1, len(av) + 1) for c in itertools.combinations(av, r)]
        per_state.append(subs)
    return list(itertools.product(*per_state))


def h_pi_vec_one_iteration(B, Sn, An, am, pol_index, tseed=0):
    """One arbitrary iteration of the real policy_iteration_vectorized from policy number pol_index of uniform_policies
    (policy_matrix is an argument, so this is the inductive step of its loop).  Transition tensor and discount are
    generic concrete rationals (VCs stay linear), rewards symbolic."""
    from fractions import Fraction
    am = np.array(am, dtype=bool)
    T = [_gen_T(Sn, An, seed='%s/%d' % (tseed, b)) for b in range(B)]
    SAR = [[[S.real('R_%d_%d_%d' % (b, s, a)) for a in range(An)] for s in range(Sn)] for b in range(B)]
    gl = [Fraction(9, 10), Fraction(1, 2)]
    g = [S.const(gl[b % 2]) for b in range(B)]
    P0 = []
    used = []
    for b in range(B):
        pols = uniform_policies(am[b].tolist())
        pol = pols[pol_index % len(pols)]
        used.append(pol)
        P0.append([[S.const(Fraction(1, len(pol[s]))) if a in pol[s] else 0.0 for a in range(An)] for s in range(Sn)])
    Ta, Ra, ga, Pa = _arr(T), _arr(SAR), _arr(g), _arr(P0)
    with (patched((pi, dict(np=NP))) if S.symbolic() else M.contextlib.nullcontext()):
        V, Q, P, i = pi.policy_iteration_vectorized(Ta, ga, Ra, am, Pa, max_iterations=1)
    for name, c in pi_vec_ensures(Ta, ga, Ra, am, 1, P0, V, Q, P, i).items():
        S.check(name, c)
    # Q is the look-ahead of the EXACT evaluation Vhat of P0; Vhat is eliminated through the expectation equation
    # Vhat[s] = sum_a P0[s,a] Q[s,a], so the clause does not trust any variable of the code.
    ok = []
    for b in range(B):
        Vhat = [S.Sum(P0[b][s][a] * Q[b, s, a] for a in range(An) if a in used[b][s]) for s in range(Sn)]
        for s in range(Sn):
            for a in range(An):
                if am[b, s, a]:
                    ok.append(S.eq(Q[b, s, a], SAR[b][s][a] + g[b] * S.Sum(T[b][s][a][n] * Vhat[n] for n in range(Sn))))
    S.check('pi_vec:Q-is-lookahead-of-exact-evaluation-of-policy', S.And(ok))
    rows = []
    for b in range(B):
        for s in range(Sn):
            qs = [Q[b, s, a] for a in range(An)]
            mx = S.Max([q for q, av in zip(qs, am[b, s]) if av])
            best = [a for a in range(An) if am[b, s, a] and bool(M.spec_isclose(qs[a], mx))]
            for a in range(An):
                rows.append(S.eq(P[b, s, a], S.const(Fraction(1, len(best))) if a in best else 0))
    S.check('pi_vec:returned-policy-is-uniform-over-argmax-or-unchanged', S.Or(
        S.And(rows), S.And([S.eq(P[b, s, a], P0[b][s][a]) for b in range(B) for s in range(Sn) for a in range(An)])))
    # whichever exit the loop takes (policy stable, or iteration cap), the returned policy is the greedy one for the evaluation of the policy it started
    # the iteration with: a stable policy IS its own greedy policy.  (An exit that returns the evaluated policy unimproved would pass the clause above.)
    S.check('pi_vec:returned-policy-is-uniform-over-argmax-of-the-evaluated-policy(also-when-it-is-returned-unchanged)', S.And(rows))
    S.check('mustfail:Q-ignores-discount', S.And([S.eq(Q[b, s, a], SAR[b][s][a]) for b in range(B) for s in range(Sn) for a in range(An) if am[b, s, a]]))


def stub_pi_vec(log):
    def stub(transition_matrix, discount_rate, state_action_reward_matrix, action_matrix, policy_matrix, max_iterations=int(1e5)):
        T, g, SAR, am = transition_matrix, discount_rate, state_action_reward_matrix, np.asarray(action_matrix)
        B, Sn, An = am.shape
        ok = [S.truth(am.dtype == bool), S.truth(tuple(T.shape) == (B, Sn, An, Sn)), S.truth(tuple(SAR.shape) == (B, Sn, An)),
              S.truth(tuple(np.shape(g)) == (B,)), S.truth(tuple(policy_matrix.shape) == (B, Sn, An))]
        for b in range(B):
            for s in range(Sn):
                ok.append(S.eq(S.Sum(policy_matrix[b, s, a] for a in range(An)), 1))
                for a in range(An):
                    ok.append(S.le(0, policy_matrix[b, s, a]))
                    if not am[b, s, a]:
                        ok.append(S.eq(policy_matrix[b, s, a], 0) if am[b, s].any() else S.true())
        S.check('stub:pi_vec:requires', S.And(ok))
        r = S.cur()
        # converged exit: a deterministic-tie-uniform policy P that is greedy for its own evaluation
        Vhat = [[S.real(r.fresh('stub_Vhat_%d_%d' % (b, s))) for s in range(Sn)] for b in range(B)]
        Q = sym_array([[[(SAR[b, s, a] + g[b] * S.Sum(T[b, s, a, n] * Vhat[b][n] for n in range(Sn))) if am[b, s, a] else -math.inf
                         for a in range(An)] for s in range(Sn)] for b in range(B)])
        P = np.empty((B, Sn, An), dtype=object)
        for b in range(B):
            for s in range(Sn):
                if not am[b, s].any():
                    for a in range(An):
                        P[b, s, a] = S.const(Fraction(1, An))
                    continue
                mx = S.Max([Q[b, s, a] for a in range(An) if am[b, s, a]])
                best = [a for a in range(An) if am[b, s, a] and bool(M.spec_isclose(Q[b, s, a], mx))]
                for a in range(An):
                    P[b, s, a] = S.const(Fraction(1, len(best))) if a in best else 0.0
                # Vhat is the exact evaluation of P
                S.assume(S.eq(Vhat[b][s], S.Sum(P[b, s, a] * Q[b, s, a] for a in range(An) if a in best)))
        V = sym_array([[S.Max([Q[b, s, a] for a in range(An)]) for s in range(Sn)] for b in range(B)])
        i = S.integer(r.fresh('stub_i'), 0, max_iterations - 1)
        log.update(Vhat=Vhat, Q=Q)
        return V, Q, P.view(SymArray), i
    return stub


def h_plan_pi(skels, gamma_kind, stubbed=True, undefined=7, numeric='sym', nseed=0):
    built = [M.make_mdp(sk, tag='m%d' % k, gamma=gamma_kind, reward_sign='nonpos' if gamma_kind == 'one' else None, numeric=numeric, nseed=nseed)
             for k, sk in enumerate(skels)]
    log = {}
    planner = pi.PolicyIteration(max_iterations=1000, undefined_value=undefined)
    mdps = [m for m, _ in built]

    def run():
        if len(mdps) == 1:
            return [planner.plan_on(mdps[0])]
        return planner.batch_plan_on(mdps)
    if S.symbolic():
        with M.facades(pi), patched((pi, dict(policy_iteration_vectorized=stub_pi_vec(log)) if stubbed else {})):
            ress = run()
            for k, ((mdp, v), res) in enumerate(zip(built, ress)):
                _check_plan(v, mdp, res, 0, undefined, 'pi', 'PI[%d/%d]' % (k, len(mdps)), log)
    else:
        ress = run()
        for k, ((mdp, v), res) in enumerate(zip(built, ress)):
            _check_plan(v, mdp, res, 1e-6, undefined, 'pi', 'PI[%d/%d]' % (k, len(mdps)), log)


# ---------------------------------------------------------------------------------------------------
# run-time tier: the un-stubbed planners on concrete MDPs, same clauses
# ---------------------------------------------------------------------------------------------------
def rt_end_to_end(seed, n):
    """R: the UN-stubbed planners on concrete random MDPs over the skeleton families, same clause text, real floats."""
    import random
    rnd = random.Random(seed)
    out = []
    fam = M.family_basic('thorough', seed)
    ufam = M.family_undiscounted('thorough')
    for k in range(n):
        if k % 3 == 2:
            sk, g = ufam[(k // 3) % len(ufam)], 'one'
        else:
            sk, g = fam[k % len(fam)], rnd.choice([0.5, 0.8, 0.95])
        und = rnd.choice([7, -50, 0])
        for h, args in ((h_plan_vec, (sk, g, False, 100000, und)), (h_plan_dict, (sk, g, False, 100000, und)), (h_plan_pi, ([sk], g, False, und))):
            rp = S.run_concrete(h, args, {'tol': 1e-9}, rng=rnd)
            for c in rp['checks']:
                if 'next-to-never-absorbing' in c['name']:
                    continue       # F12a is decided (and reported as known finding) by the symbolic tasks
                out.append(dict(name='rt:' + c['name'], ok=c['status'] == 'proved', detail=str(c.get('detail'))[:800],
                                witness=dict(skel=sk.name, gamma=g, inputs=rp.get('inputs'))))
    # a tie at the start state that becomes visible only after the policy at a DOWNSTREAM state has been improved (start-a->mid-good/bad->end,
    # start-b->alt-go->end): the policy that is evaluated last already has optimal values but not yet the full optimal support
    for g, (ra, rb, rgood, rbad, rgo) in ((0.5, (-1, -1, -1, -3, -1)), (1.0, (-1, -2, -2, -5, -1)), (0.9, (0, 0, -1, -2, -1))):
        model = {'tol': 1e-9, 'm0_R_start_a_mid': ra, 'm0_R_start_b_alt': rb, 'm0_R_mid_good_end': rgood, 'm0_R_mid_bad_end': rbad, 'm0_R_alt_go_end': rgo,
                 'm0_R_end_stay_end': 0, 'm_R_start_a_mid': ra, 'm_R_start_b_alt': rb, 'm_R_mid_good_end': rgood, 'm_R_mid_bad_end': rbad, 'm_R_alt_go_end': rgo,
                 'm_R_end_stay_end': 0}
        for h, args in ((h_plan_vec, (LATE_TIE, g, False, 100000, 7)), (h_plan_dict, (LATE_TIE, g, False, 100000, 7)), (h_plan_pi, ([LATE_TIE], g, False, 7))):
            rp = S.run_concrete(h, args, model)
            used = rp.get('inputs') or {}
            out.append(dict(name='rt:late-tie:harness-reads-the-scripted-rewards', ok=any(k.endswith('R_mid_bad_end') and float(v) == rbad for k, v in used.items()),
                            witness=dict(inputs=used)))
            for c in rp['checks']:
                if 'next-to-never-absorbing' in c['name']:
                    continue
                out.append(dict(name='rt:' + c['name'], ok=c['status'] == 'proved', detail=str(c.get('detail'))[:800],
                                witness=dict(skel=LATE_TIE.name, gamma=g, inputs=rp.get('inputs'))))
    # batch entry point, un-stubbed, on models that need DIFFERENT numbers of sweeps (one converges at once, one needs three): every result of the batch obeys
    # the same clauses as a single plan_on (an entry that has converged must neither be disturbed nor disturb the bookkeeping of those still iterating)
    names = ('R_start_a_mid', 'R_start_b_alt', 'R_mid_good_end', 'R_mid_bad_end', 'R_alt_go_end', 'R_end_stay_end')
    slow, fast, mid = (-1, -1, -1, -3, -1, 0), (0, 0, 0, 0, 0, 0), (-2, -1, -1, -1, -4, 0)
    for g in (0.5, 0.9, 1.0):
        for combo in ((fast, slow), (slow, fast), (slow, mid, fast), (mid, fast, slow)):
            model = {'tol': 1e-9}
            for k, vals in enumerate(combo):
                model.update({'m%d_%s' % (k, n): x for n, x in zip(names, vals)})
            rp = S.run_concrete(h_plan_pi, ([LATE_TIE] * len(combo), g, False, 7), model)
            used = rp.get('inputs') or {}
            out.append(dict(name='rt:batch:harness-reads-the-scripted-rewards', ok=used.get('m1_R_mid_bad_end') == combo[1][3], witness=dict(inputs=used)))
            for c in rp['checks']:
                if 'next-to-never-absorbing' in c['name']:
                    continue
                out.append(dict(name='rt:batch:' + re.sub(r'PI\[\d+/\d+\]', 'PI[k/n]', c['name']), ok=c['status'] == 'proved', detail=str(c.get('detail'))[:800],
                                witness=dict(skel=LATE_TIE.name, gamma=g, batch=len(combo), clause=c['name'], inputs=rp.get('inputs'))))
    return out


LATE_TIE = M.Skel('s4-late-tie', ['start', 'mid', 'alt', 'end'], {'start': ('a', 'b'), 'mid': ('good', 'bad'), 'alt': ('go',), 'end': ('stay',)},
                  {('start', 'a'): ('mid',), ('start', 'b'): ('alt',), ('mid', 'good'): ('end',), ('mid', 'bad'): ('end',), ('alt', 'go'): ('end',),
                   ('end', 'stay'): ('end',)}, absorbing=['end'], init=['start'])


# ---------------------------------------------------------------------------------------------------
def tasks(tier, seed):
    global DUMP
    DUMP = _dump_dir()
    T = []
    thorough = tier == 'thorough'
    shapes = [(1, 1), (2, 2), (3, 2)] + ([(2, 3), (3, 3), (4, 2)] if thorough else [])
    for (Sn, An) in shapes:
        for pi_, am in enumerate(AM_PATTERNS[(Sn, An)]):
            nm = 'S%dA%d/am%d' % (Sn, An, pi_)
            T.append(Task('vi_vec/unrolled/%s/maxit1/allsym' % nm, h_vi_vec_unrolled, (Sn, An, am, 1), tier='B',
                          expect_fail=('mustfail:V-equals-start',), note='real value_iteration_vectorized, every numeric input symbolic'))
            for maxit in ([2, 3] if thorough else [2]):
                T.append(Task('vi_vec/unrolled/%s/maxit%d/generic' % (nm, maxit), h_vi_vec_unrolled, (Sn, An, am, maxit, False, True), tier='B',
                              expect_fail=('mustfail:V-equals-start',), note='generic rational T and gamma, symbolic rewards/start/tolerance'))
            T.append(Task('vi_vec/unrolled/%s/maxit2/from-zero-masked-row' % nm, h_vi_vec_unrolled, (Sn, An, am, 2, True, True), tier='B',
                          expect_fail=('mustfail:V-equals-start',)))
            T.append(Task('vi_vec/cut/%s' % nm, h_vi_vec_cut, (Sn, An, am, 100000), tier='B',
                          note='loop 0 cut by invariant: any number of iterations, every numeric input symbolic'))
            T.append(Task('vi_vec/cut/%s/from-zero-masked-row' % nm, h_vi_vec_cut, (Sn, An, am, 100000, True), tier='B'))
            npol = len(uniform_policies(am))
            for k in range(npol if (thorough or npol <= 6) else 6):
                T.append(Task('pi_vec/step/B1/%s/pol%d' % (nm, k), h_pi_vec_one_iteration, (1, Sn, An, [am], k), tier='B',
                              expect_fail=('mustfail:Q-ignores-discount',), note='one iteration from a uniform-over-subset policy'))
    for k in range(3):
        T.append(Task('pi_vec/step/B2/S2A2/pol%d' % k, h_pi_vec_one_iteration, (2, 2, 2, AM_PATTERNS[(2, 2)], k), tier='B',
                      expect_fail=('mustfail:Q-ignores-discount',), note='batch of two MDPs with different availability and discount'))
    fam = M.family_basic(tier, seed)
    for sk in fam:
        T.append(Task('vi_tab/cut/%s' % sk.name, h_vi_tab_cut, (sk, 'sym', 100000), tier='B'))
        T.append(Task('vi_tab/unrolled/%s' % sk.name, h_vi_tab_unrolled, (sk, 'sym', 2, 'generic'), tier='B'))
        small = len(sk.states) <= 2
        for numeric in (['sym', 'generic'] if small else ['generic']):
            for ns in ([0, 1] if (numeric == 'generic') else [0]):
                sfx = '%s/%s%d' % (sk.name, numeric, ns)
                T.append(Task('plan_vec/%s' % sfx, h_plan_vec, (sk, 'sym', True, 1000, 7, numeric, ns), tier='B',
                              note='_vectorized_plan_on against the contract of value_iteration_vectorized'))
                if numeric == 'generic' or len(sk.states) == 1:
                    T.append(Task('plan_dict/%s' % sfx, h_plan_dict, (sk, 'sym', True, 1000, 7, numeric, ns), tier='B'))
                T.append(Task('plan_pi/%s' % sfx, h_plan_pi, ([sk], 'sym', True, 7, numeric, ns), tier='B'))
    T.append(Task('plan_pi/batch2', h_plan_pi, ([fam[1], fam[1]], 'sym', True, 7, 'generic', 0), tier='B', note='batch entry point, two different MDPs'))
    for sk in M.family_undiscounted(tier):
        T.append(Task('plan_pi/undiscounted/%s' % sk.name, h_plan_pi, ([sk], 'one', True, 7, 'generic', 0), tier='B'))
        T.append(Task('plan_vec/undiscounted/%s' % sk.name, h_plan_vec, (sk, 'one', True, 1000, 7, 'generic', 0), tier='B'))
        T.append(Task('plan_dict/undiscounted/%s' % sk.name, h_plan_dict, (sk, 'one', True, 1000, 7, 'generic', 0), tier='B'))
        T.append(Task('vi_tab/cut/undiscounted/%s' % sk.name, h_vi_tab_cut, (sk, 'one', 100000), tier='B'))
    T.append(Task('rt/end-to-end', rt_end_to_end, (seed, 18 if tier == 'quick' else 90), tier='R', kind='rt',
                  note='un-stubbed ValueIteration (both versions) and PolicyIteration on concrete MDPs; contract clauses evaluated on floats'))
    from specs import reuse as _reuse
    T.append(Task('rt/object-reuse', _reuse.rt_planner_reuse, ('C01', ['ValueIteration', 'PolicyIteration'], seed), tier='R', kind='rt', note='planner objects, earlier results and model objects across calls'))
    return T


MANIFEST_ENTRY = dict(
    category='other',
    text=('Contracts on value_iteration_vectorized / value_iteration_tabular (loops cut by inductive invariants: any number of '
          'iterations), policy_iteration_vectorized (inductive step from every reachable policy) and the three plan_on wrappers '
          '(verified modularly against the callee contracts). Every obligation is discharged by z3 for ALL rewards, start vectors, '
          'tolerances (and, in the all-symbolic tasks, all probabilities and discounts) but over a bounded family of MDP skeletons '
          '(<=4 states), so the level is bounded (tier B), not proof; a run-time tier replays the same clauses on the un-stubbed planners.'),
    note=('Assumes floats are reals, numpy object-dtype structure ops = float ones, np.linalg.solve contract; distance to V* rests on '
          'trusted lemmas L1-L4; liveness (cap not hit) not decided. Known finding F12a (gamma=1 trap states) is reported as KNOWN-FINDING.'),
)
END_MANIFEST_ENTRY = True


SENTINELS = globals().get('SENTINELS', []) + [
    Sentinel('vi-vec-drops-the-discount', 'msdm.algorithms.valueiteration', '            discount_rate*future_action_values +\\\n',
             '            future_action_values +\\\n', ['re:^vi_vec/unrolled/']),
    Sentinel('vi-tab-stops-one-residual-too-early', 'msdm.algorithms.valueiteration', '        if residual < max_residual:\n            break\n    return state_values, action_values, i',
             '        if residual < 10*max_residual:\n            break\n    return state_values, action_values, i', ['re:^vi_tab/cut/']),
]
