"""C02 -- exact policy evaluation solves the Bellman expectation equations."""
import math, itertools, random as _random
from fractions import Fraction
import numpy as np
from symrun import core as S
from symrun.driver import Task, Sentinel
from specs import mdpspec as M
from specs.mdpspec import Skel

import msdm.core.mdp.tabularpolicy as tp
import msdm.core.mdp.policy as pol

FILES = ['msdm/core/mdp/tabularpolicy.py', 'msdm/core/mdp/policy.py']
FUNCTIONS = [
    'msdm.core.mdp.tabularpolicy.TabularPolicy.evaluate_on', 'msdm.core.mdp.tabularpolicy.TabularPolicy._evaluate_on_discounted',
    'msdm.core.mdp.tabularpolicy.TabularPolicy._evaluate_on_undiscounted', 'msdm.core.mdp.tabularpolicy.TabularPolicy.action_dist',
    'msdm.core.mdp.policy.Policy.to_tabular',
]
ASSUMPTIONS = [
    'floats are mathematical reals',
    'np.linalg.inv on a numeral matrix is computed by exact rational elimination (no assumed contract needed); singular -> LinAlgError as numpy',
    'tier B: MDP skeleton family (<=4 states), probabilities / discount / policy probabilities are generic concrete rationals (several draws), '
    'rewards symbolic (all values): every VC is linear',
    'uniqueness of the solution of the expectation equations: I - gamma*P_pi nonsingular for gamma<1, transient block nonsingular for gamma=1 (trusted, Neumann series)',
]
LEMMAS = ['uniqueness of the Bellman expectation solution (trusted)']
NOT_DECIDED = ['nothing beyond the float/real gap and the skeleton bound']
EXPLANATION = 'C02: TabularPolicy.evaluate_on (discounted and undiscounted-negative) and Policy.to_tabular against the Bellman expectation equations.'


def policy_supports(sk, rnd, mode):
    """state -> tuple of actions the policy gives positive probability"""
    out = {}
    for s in sk.states:
        acts = list(sk.actions.get(s, ()))
        if not acts:
            out[s] = ()
        elif mode == 'full':
            out[s] = tuple(acts)
        elif mode == 'det-first':
            out[s] = (acts[0],)
        elif mode == 'det-last':
            out[s] = (acts[-1],)
        else:
            k = rnd.randint(1, len(acts))
            out[s] = tuple(rnd.sample(acts, k))
    return out


def make_policy(sk, mdp, mode, seed):
    rnd = _random.Random('pol/%s/%s/%s' % (sk.name, mode, seed))
    sup = policy_supports(sk, rnd, mode)
    sl, al = list(mdp.state_list), list(mdp.action_list)
    P = {}
    for s in sl:
        acts = sup[s]
        if len(acts) == 0:
            ps = []
        elif len(acts) == 1:
            ps = [1.0]
        else:
            ps = M._generic_simplex(rnd, len(acts))
        for a in al:
            P[(s, a)] = 0.0
        for a, p in zip(acts, ps):
            P[(s, a)] = p
    # the table's OWN field order is independent of the MDP's (from_state_action_lists accepts any order, from_dict orders through a set):
    # keep the MDP's order for the 'full' / 'det-first' modes, use a rotated state order and a reversed action order otherwise
    psl, pal = list(sl), list(al)
    if mode not in ('full', 'det-first'):
        k = 1 + rnd.randrange(max(1, len(psl) - 1)) if len(psl) > 1 else 0
        psl = psl[k:] + psl[:k]
        pal = pal[::-1]
    data = [[P[(s, a)] for a in pal] for s in psl]
    from symrun.npf import sym_array
    arr = sym_array(data) if S.symbolic() else np.array(data, dtype=float)
    policy = tp.TabularPolicy.from_state_action_lists(state_list=tuple(psl), action_list=tuple(pal), data=arr)
    return policy, P, sup


def closed_classes(sk, sl, edges, absorbing):
    """recurrent (closed, non-absorbing) classes of the concrete policy chain"""
    reach = {s: {s} for s in sl}
    for _ in range(len(sl)):
        for s in sl:
            for n in edges[s]:
                reach[s] |= reach[n]
    rec = [s for s in sl if s not in absorbing and edges[s] and all(s in reach[n] for n in reach[s])]
    return reach, set(rec)


def h_eval(sk, gamma, pmode, seed, mustfail=False):
    undisc = gamma == 'one'
    mdp, v = M.make_mdp(sk, gamma=gamma, numeric='generic', nseed=seed, reward_sign='nonpos' if undisc else None)
    with M.facades():
        policy, P, sup = make_policy(sk, mdp, pmode, seed)
        res = policy.evaluate_on(mdp)
        sl, al = list(mdp.state_list), list(mdp.action_list)
    sv = {s: res.state_value[s] for s in sl}
    occ = {s: res.state_occupancy[s] for s in sl}
    absb = {s: M._dc(M.spec_abs(v, s)) for s in sl}       # forks: concretises implicit-absorbing status on this path
    g = v.gamma
    rpi = {s: S.Sum(P[(s, a)] * S.Sum(v.T[(s, a, n)] * v.R[(s, a, n)] for n in sk.supp[(s, a)]) for a in sup[s]) for s in sl}
    Ppi = {s: {n: S.Sum(P[(s, a)] * v.T[(s, a, n)] for a in sup[s] if n in sk.supp[(s, a)]) for n in sl} for s in sl}
    if not undisc:
        ok_v, ok_q, ok_d = [], [], []
        for s in sl:
            acts = sk.actions.get(s, ())
            if absb[s] or not acts:
                ok_v.append(S.eq(sv[s], 0))
            else:
                ok_v.append(S.eq(sv[s], rpi[s] + g * S.Sum(Ppi[s][n] * sv[n] for n in sl)))
            for a in al:
                q = res.action_value[s][a]
                if a in acts:
                    ok_q.append(S.eq(q, M.spec_Q(v, s, a, sv)))
                else:
                    ok_q.append(S.eq(q, -math.inf))
        for z in sl:
            ok_d.append(S.eq(occ[z], v.p0.get(z, 0) + g * S.Sum(Ppi[s][z] * occ[s] for s in sl if not absb[s])))
        S.check('evaluate_on(discounted):state-values-solve-Bellman-expectation;absorbing=0', S.And(ok_v))
        S.check('evaluate_on(discounted):action-values-are-lookahead;-inf-if-unavailable', S.And(ok_q))
        S.check('evaluate_on(discounted):occupancy-solves-d=p0+gamma*P^T*d', S.And(ok_d))
        S.check('evaluate_on:initial-value-is-p0-expectation', S.eq(res.initial_value, S.Sum(v.p0[s] * sv[s] for s in sk.init)))
        if mustfail:
            S.check('mustfail:values-ignore-discount', S.And([S.eq(sv[s], rpi[s] + S.Sum(Ppi[s][n] * sv[n] for n in sl)) for s in sl if not absb[s]] or [S.false()]))
        return
    # undiscounted, non-positive rewards
    edges = {s: ([] if absb[s] else [n for n in sl if any(n in sk.supp[(s, a)] for a in sup[s])]) for s in sl}
    reach, rec = closed_classes(sk, sl, edges, {s for s in sl if absb[s]})
    neg = {s: M._dc(S.lt(rpi[s], 0, tol=0)) for s in rec}          # forks on the sign of the expected reward of recurrent states
    inf_states = {s for s in sl if any(n in rec and neg[n] for n in reach[s])}
    ok_v, ok_q, ok_d = [], [], []
    for s in sl:
        if s in inf_states:
            ok_v.append(S.eq(sv[s], -math.inf))
        elif absb[s] or s in rec or not sk.actions.get(s, ()):
            ok_v.append(S.eq(sv[s], 0))
        else:
            ok_v.append(S.eq(sv[s], rpi[s] + S.Sum(Ppi[s][n] * sv[n] for n in edges[s])))
        for a in al:
            q = res.action_value[s][a]
            if a not in sk.actions.get(s, ()):
                ok_q.append(S.eq(q, -math.inf))
            elif any(n in inf_states for n in sk.supp[(s, a)]):
                ok_q.append(S.eq(q, -math.inf))
            else:
                ok_q.append(S.eq(q, M.spec_Q(v, s, a, sv)))
    init_reach = set()
    for s in sk.init:
        init_reach |= reach[s]
    for z in sl:
        if z in rec and z in init_reach:
            ok_d.append(S.eq(occ[z], math.inf))
        else:
            ok_d.append(S.eq(occ[z], v.p0.get(z, 0) + S.Sum(Ppi[s][z] * occ[s] for s in sl if not absb[s] and s not in rec and z in edges[s])))
    S.check('evaluate_on(undiscounted):-inf-iff-reaches-negative-closed-class;else-expected-total-reward', S.And(ok_v))
    S.check('evaluate_on(undiscounted):action-values-are-lookahead(0*-inf=0);-inf-if-unavailable', S.And(ok_q))
    S.check('evaluate_on(undiscounted):occupancy-inf-on-reachable-recurrent-states;else-solves-flow-equation', S.And(ok_d))
    iv = 0
    infinite = False
    for s in sk.init:
        if s in inf_states:
            infinite = True
        else:
            iv = iv + v.p0[s] * sv[s]
    S.check('evaluate_on:initial-value-is-p0-expectation', S.eq(res.initial_value, -math.inf if infinite else iv))


def h_to_tabular(sk, seed):
    """Policy.to_tabular: result[s,a] = action_dist(s).prob(a); 0 elsewhere; rows of the table are distributions with exactly those events"""
    from msdm.core.distributions import DictDistribution
    rnd = _random.Random('tt/%s/%s' % (sk.name, seed))
    sl = list(sk.states)
    al = list(sk.action_list)
    rnd.shuffle(al)
    probs = {}
    for s in sl:
        acts = list(sk.actions.get(s, ())) or al[:1]
        ps = S.simplex(['pi_%s_%s' % (s, a) for a in acts], strict=False)
        probs[s] = dict(zip(acts, ps))
    fp = pol.FunctionalPolicy(lambda s: DictDistribution(probs[s]))
    with M.facades():
        t = fp.to_tabular(sl, al)
        ok = []
        for s in sl:
            row = t.action_dist(s)
            ok.append(S.truth(list(row.support) == al))
            for a in al:
                ok.append(S.eq(t[s][a], probs[s].get(a, 0)))
                ok.append(S.eq(row.prob(a), probs[s].get(a, 0)))
        S.check('to_tabular:cells-are-action_dist-probabilities;0-elsewhere', S.And(ok))
        try:
            fp.to_tabular(sl, al[1:]) if len(al) > 1 else None
            raised = len(al) <= 1 or not any(al[0] in probs[s] for s in sl)
        except KeyError:
            raised = True
        S.check('to_tabular:KeyError-when-policy-names-an-action-outside-the-list', S.truth(raised))


def h_dispatch(sk):
    mdp, v = M.make_mdp(sk, gamma=1.5, numeric='generic')
    with M.facades():
        policy, P, sup = make_policy(sk, mdp, 'full', 0)
        try:
            policy.evaluate_on(mdp)
            ok = False
        except ValueError:
            ok = True
    S.check('evaluate_on:discount>1-raises-ValueError', S.truth(ok))


def rt_random(seed, n):
    rnd = _random.Random(seed)
    out = []
    fams = M.family_basic('thorough', seed) + M.family_undiscounted('quick') + EXTRA
    for k in range(n):
        sk = fams[k % len(fams)]
        g = rnd.choice([0.5, 0.9, 'one'])
        rp = S.run_concrete(h_eval, (sk, g, rnd.choice(['full', 'rand', 'det-first', 'det-last']), rnd.randint(0, 10 ** 6)), {}, rng=rnd)
        for c in rp['checks']:
            if c['name'].startswith('mustfail'):
                continue
            out.append(dict(name='rt:' + c['name'], ok=c['status'] == 'proved', detail=str(c.get('detail'))[:800],
                            witness=dict(skel=sk.name, gamma=g, inputs=rp.get('inputs'))))
    return out


def rt_rowsum(seed, n):
    """float-arithmetic corner (F20): policy rows and transition rows whose product sums to 0.999..9; the closed class {t,u} pays only at t.
    Run-time tier only: the exact-rational tiers cannot see rounding by construction."""
    from msdm.core.mdp import TabularMarkovDecisionProcess
    from msdm.core.distributions import DictDistribution as D
    rnd = _random.Random('rowsum/%s' % seed)
    out = []
    for k in range(n):
        if k == 0:
            a, b, c, d = 4, 15, 1, 6            # the instance that failed before e4420cd
        else:
            b = rnd.randint(2, 40); a = rnd.randint(1, b - 1); d = rnd.randint(2, 40); c = rnd.randint(1, d - 1)
        pt, qt = a / b, c / d

        class Mdp(TabularMarkovDecisionProcess):
            discount_rate = 1.0
            def initial_state_dist(self): return D({'s': 1.0})
            def actions(self, s): return {'s': ('go', 'fall'), 't': ('go', 'fall'), 'u': ('go',), 'g': ('go',)}[s]
            def is_absorbing(self, s): return s == 'g'
            def next_state_dist(self, s, a):
                return {('s', 'go'): D({'g': 1.0}), ('s', 'fall'): D({'t': 1.0}), ('t', 'go'): D({'t': qt, 'u': 1 - qt}), ('t', 'fall'): D({'u': 1.0}),
                        ('u', 'go'): D({'t': 1.0}), ('g', 'go'): D({'g': 1.0})}[(s, a)]
            def reward(self, s, a, ns): return -1.0 if (s, a) == ('t', 'go') else 0.0
        m = Mdp()
        cell = {('s', 'go'): .5, ('s', 'fall'): .5, ('t', 'go'): pt, ('t', 'fall'): 1 - pt, ('u', 'go'): 1.0, ('g', 'go'): 1.0}
        p = tp.TabularPolicy.from_state_action_lists(state_list=m.state_list, action_list=m.action_list,
                                                     data=[[cell.get((s, x), 0.0) for x in m.action_list] for s in m.state_list])
        r = p.evaluate_on(m)
        ok = all(r.state_value[s] == -math.inf for s in 'stu') and r.state_value['g'] == 0 and r.initial_value == -math.inf
        out.append(dict(name='rt:evaluate_on(undiscounted,float-row-sums):-inf-on-and-before-the-paying-closed-class', ok=bool(ok),
                        detail=str(dict(r.state_value)), witness=dict(pt='%d/%d' % (a, b), qt='%d/%d' % (c, d))))
    return out


# initial probability directly ON an absorbing state, next to non-absorbing initial states (explicit and implicit absorbing goal): the occupancy of the
# absorbing state is its initial mass PLUS the inflow
EXTRA = [M.Skel('s3-init-on-absorbing', ['s', 'm', 'g'], {'s': ('a', 'b'), 'm': ('a',), 'g': ('a',)},
                {('s', 'a'): ('m', 'g'), ('s', 'b'): ('g',), ('m', 'a'): ('g', 's'), ('g', 'a'): ('g',)}, absorbing=['g'], init=['g', 's']),
         M.Skel('s3-init-on-implicit-absorbing', [0, 1, 2], {0: ('x', 'y'), 1: ('y',), 2: ('x',)},
                {(0, 'x'): (0, 1), (0, 'y'): (1, 2), (1, 'y'): (0, 2), (2, 'x'): (2,)}, init=[2, 0, 1])]


def tasks(tier, seed):
    T = []
    fam = M.family_basic(tier, seed) + EXTRA
    modes = ['full', 'rand', 'det-first', 'det-last']
    for sk in fam:
        for pm in modes:
            for ns in ([0, 1] if tier == 'thorough' else [0]):
                mf = (pm == 'full' and sk.name == 's3-branch')
                T.append(Task('eval/discounted/%s/%s/%d' % (sk.name, pm, ns), h_eval, (sk, 'sym', pm, ns, mf), tier='B',
                              expect_fail=('mustfail:values-ignore-discount',) if mf else ()))
                T.append(Task('eval/undiscounted/%s/%s/%d' % (sk.name, pm, ns), h_eval, (sk, 'one', pm, ns), tier='B'))
        T.append(Task('to_tabular/%s' % sk.name, h_to_tabular, (sk, seed), tier='B'))
    for sk in M.family_undiscounted(tier):
        for pm in modes:
            T.append(Task('eval/undiscounted/%s/%s' % (sk.name, pm), h_eval, (sk, 'one', pm, 0), tier='B'))
    T.append(Task('dispatch/gamma>1', h_dispatch, (fam[1],), tier='B'))
    T.append(Task('rt/float-row-sums', rt_rowsum, (seed, 200 if tier == 'quick' else 3000), tier='R', kind='rt'))
    T.append(Task('rt/random', rt_random, (seed, 40 if tier == 'quick' else 300), tier='R', kind='rt'))
    return T


MANIFEST_ENTRY = dict(
    category='other',
    text=('Contracts on TabularPolicy.evaluate_on (discounted: Bellman expectation equations, occupancy flow equation, look-ahead action '
          'values; undiscounted-negative: -inf exactly when a negative closed class is reachable, finite solution otherwise) and '
          'Policy.to_tabular, discharged by z3 for all reward values over a bounded family of MDP skeletons x policy supports with generic '
          'rational probabilities; run-time tier on random instances.'),
    note='Bounded skeletons, generic rational probabilities (tier B); floats as reals; uniqueness of the linear solution trusted.',
)
END_MANIFEST_ENTRY = True


SENTINELS = globals().get('SENTINELS', []) + [
    Sentinel('discounted-evaluation-keeps-transitions-out-of-absorbing-states', 'msdm.core.mdp.tabularpolicy', '        markov_process[absorbing_state_vec, :] = 0\n        successor_representation = np.linalg.inv(',
             '        successor_representation = np.linalg.inv(', ['re:^eval/discounted/s2-explicit']),
    Sentinel('discounted-action-values-forget-the-discount', 'msdm.core.mdp.tabularpolicy', '                mdp.discount_rate*mdp.transition_matrix,\n',
             '                mdp.transition_matrix,\n', ['re:^eval/discounted/s3-branch']),
]
