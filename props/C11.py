"""C11 -- finite distributions obey the probability calculus."""
import math, itertools, contextlib
from fractions import Fraction
import numpy as np
from symrun import core as S
from symrun.driver import Task, Sentinel
from symrun.patch import patched
from symrun.rngf import DemonicRng, Tripwire
from symrun.npf import NP, sym_array

import msdm.core.distributions.distributions as dd
import msdm.core.distributions.dictdistribution as dct
import msdm.core.distributions.softmaxdistribution as sm
import msdm.core.table.table as tbl
from msdm.core.table import ProbabilityTable, TableIndex

FILES = ['msdm/core/distributions/distributions.py', 'msdm/core/distributions/dictdistribution.py',
         'msdm/core/distributions/softmaxdistribution.py', 'msdm/core/table/table.py']
FUNCTIONS = ['msdm.core.distributions.distributions.FiniteDistribution.' + f for f in
             ('sample', 'items', 'values', 'probs', 'score', '__and__', '__or__', '__mul__', '__rmul__', 'isclose', 'marginalize',
              'expectation', 'condition', 'chain', 'normalize', 'joint', 'is_normalized', '__len__')] + \
    ['msdm.core.distributions.dictdistribution.UniformDistribution.prob', 'msdm.core.distributions.dictdistribution.UniformDistribution.sample',
     'msdm.core.distributions.dictdistribution.DeterministicDistribution.prob', 'msdm.core.distributions.dictdistribution.DeterministicDistribution.sample',
     'msdm.core.distributions.dictdistribution.DeterministicDistribution.items', 'msdm.core.distributions.dictdistribution.DictDistribution.prob',
     'msdm.core.distributions.dictdistribution.DictDistribution.from_pairs', 'msdm.core.distributions.dictdistribution.DictDistribution.support',
     'msdm.core.distributions.softmaxdistribution.SoftmaxDistribution.__init__', 'msdm.core.table.table.TableDistribution']
ASSUMPTIONS = [
    'floats are mathematical reals; log/exp handled as LogVal (log x stored as x): log(xy)=log x+log y, exp(log x)=x; no other analytic fact used',
    'tier B: supports of 1..3 events (quick) / 1..4 (thorough) over a pool of mixed hashable events, every projection / kernel collision '
    'pattern of the listed families, all probabilities symbolic (incl. 0 and unnormalised where the operation is defined)',
    'demonic generator over-approximates random.Random (support inclusion and frame are decided, not the sampling law)',
    'statistical correctness of random.choices is external',
]
LEMMAS = []
NOT_DECIDED = ["that the sampler's law equals the distribution (needs probabilistic semantics)", 'supports beyond the bound']
EXPLANATION = 'C11: every FiniteDistribution operation against its Sigma-definition, agreement between the five kinds, sampling support/frame/determinism.'

POOL = ['a', 'b', ('a', 'b'), 0, None, frozenset([1]), 2.5]


@contextlib.contextmanager
def facades(uses=None):
    if not S.symbolic():
        yield
        return
    uses = uses if uses is not None else []
    trip = Tripwire('random', uses)
    with patched((dd, dict(math=S.MATH, random=trip)), (dct, dict(random=trip)), (sm, dict(math=S.MATH)), (tbl, dict(np=NP))):
        yield


def leaves(tag, n, kind='prob'):
    """n symbolic weights >= 0"""
    return [S.real('%s_%d' % (tag, i), 0, None) for i in range(n)]


def make(kind, events, ws):
    """a distribution object of the given kind over `events` with weights ws (uniform/deterministic ignore ws)"""
    if kind == 'dict':
        return dct.DictDistribution(dict(zip(events, ws)))
    if kind == 'uniform':
        return dct.UniformDistribution(list(events))
    if kind == 'det':
        return dct.DeterministicDistribution(events[0])
    if kind == 'table':
        data = sym_array([list(ws)]) if S.symbolic() else np.array([list(ws)], dtype=float)
        t = ProbabilityTable(data=data, table_index=TableIndex(field_names=('row', 'event'), field_domains=(('r',), tuple(events))))
        return t['r']
    if kind == 'table-perm':
        # the same distribution, obtained from a table that STORES the events in the opposite order by selecting the row and listing all events
        # (a full-length, non-identity key list inside a tuple selector): labels and numbers must stay in step
        rev_e, rev_w = list(reversed(events)), list(reversed(list(ws)))
        data = sym_array([rev_w]) if S.symbolic() else np.array([rev_w], dtype=float)
        t = ProbabilityTable(data=data, table_index=TableIndex(field_names=('row', 'event'), field_domains=(('r',), tuple(rev_e))))
        return t['r', list(events)]
    raise ValueError(kind)


def pmf(kind, events, ws):
    """the function the object is meant to describe"""
    if kind == 'uniform':
        return {e: S.const(Fraction(1, len(events))) for e in events}
    if kind == 'det':
        return {events[0]: 1}
    return dict(zip(events, ws))


def eq_dist(d, spec, universe, name_ok=None):
    """d.prob(e) == spec(e) on the universe, and no event outside spec's keys has positive mass"""
    return S.And([S.eq(d.prob(e), spec.get(e, 0)) for e in universe])


def h_algebra(kind, n, proj_id, mustfail=False, kind2='dict'):
    events = POOL[:n]
    ws = leaves('p', n)
    uses = []
    with facades(uses):
        d = make(kind, events, ws)
        f = pmf(kind, events, ws)
        # items / values / probs / support / len describe the same function
        items = list(d.items())
        S.check('kinds:items-values-probs-support-describe-the-same-function', S.And(
            [S.truth([e for e, _ in items] == list(d.support) == events[:len(f)]), S.truth(len(d) == len(f))] +
            [S.eq(p, f[e]) for e, p in items] + [S.eq(p, f[e]) for e, p in zip(d.support, d.values())] +
            [S.eq(p, f[e]) for e, p in zip(d.support, d.probs)] + [S.eq(d.prob(e), f[e]) for e in f] +
            [S.eq(d.prob('not-an-event'), 0)]))
        # marginalize: projection patterns over the support
        projs = projection_family(list(f))
        proj = projs[proj_id % len(projs)]
        if 'table' in (kind, kind2) or 'table-perm' in (kind, kind2):
            # a tuple used as a key of a table row is a multi-field selector by design (C12), not an event label: table-backed kernels get string labels
            proj = {e: (v if not isinstance(v, tuple) else 'blk%d' % v[1]) for e, v in proj.items()}
        m = d.marginalize(lambda e: proj[e])
        img = []
        for e in f:
            if proj[e] not in img:
                img.append(proj[e])
        S.check('marginalize:sums-probabilities-of-merged-events', S.And(
            [S.eq(m.prob(k), S.Sum(f[e] for e in f if proj[e] == k)) for k in img] + [S.truth(set(m.support) == set(img))]))
        S.check('marginalize:preserves-total-mass', S.eq(S.Sum(m.values()), S.Sum(f.values())))
        # expectation
        g = {e: S.real('g_%d' % i) for i, e in enumerate(f)}
        S.check('expectation:probability-weighted-sum', S.eq(d.expectation(lambda e: g[e]), S.Sum(f[e] * g[e] for e in f)))
        # scaled mixtures add pointwise
        x, y = S.real('x', 0, None), S.real('y', 0, None)
        ws2 = leaves('q', n)
        other_events = events[1:] + ['extra']
        d2 = make(kind2, other_events, ws2)
        f2 = pmf(kind2, other_events, ws2)
        mix = d * x | y * d2
        S.check('mixture:a*x|b*y-adds-pointwise', S.And([S.eq(mix.prob(e), x * f.get(e, 0) + y * f2.get(e, 0)) for e in set(f) | set(f2)] +
                                                       [S.truth(set(mix.support) == set(f) | set(f2))]))
        S.check('mixture:rmul-equals-mul', S.And([S.eq((x * d).prob(e), (d * x).prob(e)) for e in f]))
        # joint is the product measure
        j = d.joint(d2)
        S.check('joint:product-measure', S.And([S.eq(j.prob((a, b)), f[a] * f2[b]) for a in f for b in f2] + [S.truth(len(j) == len(f) * len(f2))]))
        # chain: law of total probability, kernel patterns
        kern = {e: make(kind2, [proj[e], 'z'], [S.real('k_%d_0' % i, 0, None), S.real('k_%d_1' % i, 0, None)]) for i, e in enumerate(f)}
        c = d.chain(lambda e: kern[e])
        ys = set(img) | {'z'}
        ys = set(img) | ({'z'} if kind2 != 'det' else set())
        S.check('chain:law-of-total-probability', S.And([S.eq(c.prob(yv), S.Sum(f[e] * kern[e].prob(yv) for e in f)) for yv in ys] +
                                                       [S.truth(set(c.support) == ys)]))
        S.check('frame:no-ambient-generator-touched-by-the-algebra', S.truth(len(uses) == 0))
        if mustfail:
            S.check('mustfail:marginalize-keeps-first-only', S.And([S.eq(m.prob(k), [f[e] for e in f if proj[e] == k][0]) for k in img]) if len(img) < len(f) else S.false())


def projection_family(evs):
    """all collision patterns of a projection on the support: set partitions, as maps e -> block label"""
    n = len(evs)
    out = []

    def rec(i, labels):
        if i == n:
            out.append({e: ('blk', l) for e, l in zip(evs, labels)})
            return
        for l in range(max(labels, default=-1) + 2):
            rec(i + 1, labels + [l])
    rec(0, [])
    # a projection onto existing events as well (image inside the support)
    out.append({e: evs[0] for e in evs})
    return out


def h_condition_normalize(kind, n, zero_pattern):
    events = POOL[:n]
    ws = leaves('p', n)
    with facades():
        d = make(kind, events, ws)
        f = pmf(kind, events, ws)
        like = {}
        for i, e in enumerate(f):
            like[e] = 0.0 if (zero_pattern >> i) & 1 else S.real('w_%d' % i, 0, None, lo_strict=True)
        tot = S.Sum(f[e] * like[e] for e in f)
        if S.symbolic():
            S.assume(S.lt(0, tot))
        else:
            if not (float(tot) > 0):
                raise S.PathInfeasible()
        c = d.condition(lambda e: like[e])
        pos = [e for e in f if not isinstance(like[e], float)]
        S.check('condition:is-Bayes-rule-on-positive-likelihood-events', S.And(
            [S.eq(c.prob(e) * tot, f[e] * like[e]) for e in pos] + [S.eq(c.prob(e), 0) for e in f if e not in pos] + [S.truth(set(c.support) == set(pos))]))
        S.check('condition:is-normalised', S.eq(S.Sum(c.values()) * tot, tot))
        ft = S.Sum(f.values())
        if S.symbolic():
            S.assume(S.lt(0, ft))
        elif not float(ft) > 0:
            raise S.PathInfeasible()
        nz = d.normalize()
        S.check('normalize:divides-by-the-total', S.And([S.eq(nz.prob(e) * ft, f[e]) for e in f]))
        S.check('is_normalized:true-iff-total-close-to-1', S.Iff(S.truth(d.is_normalized()), S.truth(_isclose(ft, 1, 1e-5, 1e-8))))


def _isclose(a, b, rel, ab):
    d = abs(a - b)
    r = (d <= rel * abs(a)) | (d <= rel * abs(b)) | (d <= ab)
    return r


def h_conjunction(kinda, kindb, n, shift):
    """a & b = renormalised pointwise product on the common support (scores through log/exp)"""
    ea = POOL[:n]
    eb = POOL[shift:shift + n]
    wa = [S.real('p_%d' % i, 0, None, lo_strict=True) for i in range(n)]
    wb = [S.real('q_%d' % i, 0, None, lo_strict=True) for i in range(n)]
    if len(eb) < 1 or not (set(ea) & set(eb)):
        raise S.PathInfeasible()
    with facades():
        a, b = make(kinda, ea, wa), make(kindb, eb, wb)
        fa, fb = pmf(kinda, ea, wa), pmf(kindb, eb, wb)
        common = [e for e in fa if e in fb]
        if not common:
            raise S.PathInfeasible()
        c = a & b
        Z = S.Sum(fa[e] * fb[e] for e in common)
        S.check('conjunction:renormalised-pointwise-product-on-common-support', S.And(
            [S.eq(c.prob(e) * Z, fa[e] * fb[e]) for e in common] + [S.truth(set(c.support) == set(common))]))
        for e in common:
            S.check('score:log-of-probability', S.eq(S.MATH.exp(a.score(e)) if S.symbolic() else math.exp(a.score(e)), fa[e]))


def h_score_zero():
    with facades():
        d = dct.DictDistribution({'a': 0.0, 'b': S.real('p', 0, None, lo_strict=True)})
        S.check('score:minus-infinity-at-probability-0', S.truth(d.score('a') == -math.inf and d.score('zz') == -math.inf))


def h_softmax(n, masked=()):
    """normalised and invariant under adding a constant; scores enter as LogVal(w) with w>0 arbitrary; `masked` positions carry the score -inf
    (a masked, probability-zero event -- wherever it stands in the dictionary order)"""
    if n <= 2:
        ws = [S.real('w_%d' % i, 0, None, lo_strict=True) for i in range(n)]
    else:       # keeps the VC linear: generic positive rationals, the shift stays symbolic
        ws = [S.const(Fraction(x)) for x in (Fraction(3, 7), Fraction(5, 2), Fraction(1, 9), Fraction(11, 4))[:n]]
    ws = [(0.0 if i in masked else w) for i, w in enumerate(ws)]
    k = S.real('shift', 0, None, lo_strict=True)
    evs = POOL[:n]
    with facades():
        if S.symbolic():
            sc = {e: S.LogVal(w) for e, w in zip(evs, ws)}
            sc2 = {e: S.LogVal(w) + S.LogVal(k) for e, w in zip(evs, ws)}
        else:
            lg = lambda x: math.log(x) if x > 0 else -math.inf
            sc = {e: lg(w) for e, w in zip(evs, ws)}
            sc2 = {e: lg(w) + math.log(k) for e, w in zip(evs, ws)}
        d, d2 = sm.SoftmaxDistribution(sc), sm.SoftmaxDistribution(sc2)
        tot = S.Sum(ws)
        S.check('softmax:prob-is-exp(score)/sum', S.And([S.eq(d.prob(e) * tot, w) for e, w in zip(evs, ws)]))
        S.check('softmax:normalised', S.eq(S.Sum(d.values()), 1))
        S.check('softmax:shift-invariant', S.And([S.eq(d.prob(e), d2.prob(e)) for e in evs]))


def h_sample(kind, n, zero_pattern, k):
    """sample returns positive-probability events only, the sole event of a one-point distribution, consumes only the given rng"""
    events = POOL[:n]
    ws = [0.0 if (zero_pattern >> i) & 1 else S.real('p_%d' % i, 0, None, lo_strict=True) for i in range(n)]
    if all(isinstance(w, float) for w in ws) and kind in ('dict', 'table', 'table-perm'):
        raise S.PathInfeasible()
    uses = []
    with facades(uses):
        d = make(kind, events, ws)
        f = pmf(kind, events, ws)
        rng = DemonicRng('rng')
        if kind in ('uniform', 'det') and k != 1:
            raise S.PathInfeasible()
        r = d.sample(rng=rng) if k == 1 else d.sample(rng=rng, k=k)
        outs = [r] if k == 1 else list(r)
        ok = []
        for o in outs:
            ok.append(S.truth(o in f))
            if o in f:
                ok.append(S.lt(0, f[o]))
        S.check('sample:only-positive-probability-events', S.And(ok))
        S.check('sample:draws-only-from-the-supplied-generator', S.truth(len(uses) == 0))
        if len(f) == 1:
            S.check('sample:one-point-distribution-returns-its-event', S.truth(outs == [list(f)[0]] * len(outs)))
        if len(f) > 1:
            S.check('sample:k-draws-requested-k-returned', S.truth(len(outs) == k))


def rt_seeds(seed, n):
    """R: equally seeded real generators give identical sample sequences; global generator untouched"""
    import random
    out = []
    rnd = random.Random(seed)
    for i in range(n):
        m = rnd.randint(1, 5)
        evs = rnd.sample(POOL, m)
        ws = [rnd.choice([0.0, 0.1, 0.5, 1.0, 2.0]) for _ in evs]
        if sum(ws) == 0:
            ws[0] = 1.0
        objs = [dct.DictDistribution(dict(zip(evs, ws))), dct.UniformDistribution(evs), dct.DeterministicDistribution(evs[0])]
        for d in objs:
            st = random.getstate()
            s1 = [d.sample(rng=random.Random(i)) for _ in range(1)] + [d.sample(rng=r) for r in [random.Random(7)] for _ in range(5)]
            r1, r2 = random.Random(i), random.Random(i)
            a = [d.sample(rng=r1) for _ in range(20)]
            b = [d.sample(rng=r2) for _ in range(20)]
            out.append(dict(name='rt:sample:equal-seeds-give-equal-sequences', ok=a == b, witness=dict(events=repr(evs), ws=ws)))
            out.append(dict(name='rt:sample:global-generator-state-untouched', ok=random.getstate() == st, witness=dict(events=repr(evs))))
            out.append(dict(name='rt:sample:positive-probability-only', ok=all(d.prob(x) > 0 for x in a), witness=dict(events=repr(evs), ws=ws)))
    return out


def h_isclose(n):
    evs = POOL[:n]
    ws = leaves('p', n)
    vs = leaves('q', n)
    with facades():
        a = dct.DictDistribution(dict(zip(evs, ws)))
        b = dct.DictDistribution(dict(zip(evs, vs)))
        r = a.isclose(b)
        spec = True
        for w, v_ in zip(ws, vs):
            nzw = not bool(_isclose(w, 0, 1e-5, 1e-8))
            nzv = not bool(_isclose(v_, 0, 1e-5, 1e-8))
            if nzw or nzv:
                if not bool(_isclose(w, v_, 1e-5, 1e-8)):
                    spec = False
        S.check('isclose:true-iff-all-non-negligible-events-have-close-probabilities', S.truth(bool(r) == spec))


def h_from_pairs(n):
    evs = [POOL[i % 2] for i in range(n)]
    ws = leaves('p', n)
    with facades():
        d = dct.DictDistribution.from_pairs(list(zip(evs, ws)))
        S.check('from_pairs:accumulates-duplicate-events', S.And([S.eq(d.prob(e), S.Sum(w for x, w in zip(evs, ws) if x == e)) for e in set(evs)]))
        u = dct.DictDistribution.uniform(POOL[:n])
        S.check('uniform:classmethod', S.And([S.eq(u.prob(e), S.const(Fraction(1, n))) for e in POOL[:n]]))
        try:
            dct.UniformDistribution(['a', 'a'])
            ok = False
        except AssertionError:
            ok = True
        S.check('uniform:duplicate-support-rejected', S.truth(ok))


def tasks(tier, seed):
    T = []
    N = [1, 2, 3] + ([4] if tier == 'thorough' else [])
    for kind in ('dict', 'uniform', 'det', 'table', 'table-perm'):
        for n in N:
            if kind == 'table-perm' and (n < 2 or (tier == 'quick' and n > 3)):
                continue
            if kind == 'det' and n > 1:
                continue
            nproj = len(projection_family(POOL[:n]))
            for pid in range(nproj):
                mf = (n >= 2 and pid == 0 and kind != 'det')
                T.append(Task('algebra/%s/n%d/proj%d' % (kind, n, pid), h_algebra, (kind, n, pid, mf), tier='B',
                              expect_fail=('mustfail:marginalize-keeps-first-only',) if mf else ()))
                if pid == 0 or tier == 'thorough':
                    for kind2 in ('uniform', 'det', 'table'):
                        T.append(Task('algebra/%s-with-%s/n%d/proj%d' % (kind, kind2, n, pid), h_algebra, (kind, n, pid, False, kind2), tier='B'))
            for zp in range(2 ** n - 1):
                T.append(Task('condition/%s/n%d/zero%d' % (kind, n, zp), h_condition_normalize, (kind, n, zp), tier='B'))
            for zp in (range(2 ** n - 1) if kind in ('dict', 'table', 'table-perm') else [0]):
                for k in ((1, 2) if (n >= 2 and kind in ('dict', 'table', 'table-perm')) else (1,)):
                    T.append(Task('sample/%s/n%d/zero%d/k%d' % (kind, n, zp, k), h_sample, (kind, n, zp, k), tier='B'))
    for ka in ('dict', 'uniform', 'table'):
        for kb in ('dict', 'uniform'):
            for n in (1, 2, 3):
                for sh in ((0, 1) if n > 1 else (0,)):
                    T.append(Task('conjunction/%s-%s/n%d/shift%d' % (ka, kb, n, sh), h_conjunction, (ka, kb, n, sh), tier='B'))
    T.append(Task('score/zero', h_score_zero, (), tier='B'))
    for n in N:
        T.append(Task('softmax/n%d' % n, h_softmax, (n,), tier='B'))
        if n >= 2:
            for pos in sorted({0, n // 2, n - 1}):
                T.append(Task('softmax/n%d/masked-at-%d' % (n, pos), h_softmax, (n, (pos,)), tier='B', note='a -inf score at this position of the dictionary order'))
        T.append(Task('from_pairs/n%d' % n, h_from_pairs, (n,), tier='B'))
    for n in (1, 2):
        T.append(Task('isclose/n%d' % n, h_isclose, (n,), tier='B'))
    T.append(Task('U/expectation/abstract-distribution', h_expectation_U, (), tier='U', note='unbounded support, uninterpreted events/probabilities/function, recursive ghost sum'))
    T.append(Task('U/marginalize/abstract-distribution', h_marginalize_U, (), tier='U', note='unbounded support, quantified invariant over a z3 array accumulator', vc_timeout_ms=30000))
    T.append(Task('U/mixture/abstract-distributions', h_mixture_U, (), tier='U', note='two cut loops, unbounded supports'))
    T.append(Task('rt/seeded-sampling', rt_seeds, (seed, 30 if tier == 'quick' else 300), tier='R', kind='rt'))
    return T


MANIFEST_ENTRY = dict(
    category='other',
    text=('Contracts on every FiniteDistribution operation (marginalize, chain, condition, joint, mixtures, conjunction, expectation, '
          'normalize, softmax, isclose, from_pairs) and on sample (support inclusion, one-point shortcut, frame: only the supplied generator), '
          'for dict / uniform / deterministic / softmax / table-backed distributions, discharged by z3 for ALL probabilities (incl. 0, '
          'unnormalised) over supports of <=3 (quick) / 4 (thorough) mixed hashable events and every collision pattern of projections.'),
    note='Bounded support size (tier B); log/exp through the LogVal abstraction; sampling law not decided (demonic generator). Tier U: expectation, marginalize, mixture over abstract distributions of any length.',
)
END_MANIFEST_ENTRY = True

SENTINELS = [
    Sentinel('chain-overwrites-instead-of-accumulating', 'msdm.core.distributions.distributions',
             "cum_dist[new_e] += p*new_p", "cum_dist[new_e] = p*new_p", ['algebra/dict/n2/proj1', 'algebra/dict/n2/proj2']),
    Sentinel('condition-keeps-zero-weight-events', 'msdm.core.distributions.distributions',
             "if weight > 0:", "if weight >= 0:", ['condition/dict/n2/zero1', 'condition/dict/n2/zero2']),
    Sentinel('sample-ignores-rng', 'msdm.core.distributions.distributions',
             "        s = rng.choices(", "        s = random.choices(", ['sample/dict/n2/zero0/k1']),
    Sentinel('U:marginalize-overwrites-instead-of-accumulating', 'msdm.core.distributions.distributions',
             "            newdist[projection(e)] += p", "            newdist[projection(e)] = p", ['U/marginalize/abstract-distribution']),
    Sentinel('U:expectation-forgets-the-probability', 'msdm.core.distributions.distributions',
             "            tot += real_function(e)*p", "            tot += real_function(e)", ['U/expectation/abstract-distribution']),
    Sentinel('uniform-prob-wrong-denominator', 'msdm.core.distributions.dictdistribution',
             "return 1/len(self.support)", "return 1/(len(self.support) + (len(self.support) > 2))", ['algebra/uniform/n3/proj0']),
]


# ---------------------------------------------------------------------------------------------------
# tier U: loops over an ABSTRACT distribution of unbounded support (events are atoms key(i), probabilities val(i), length n symbolic)
# ---------------------------------------------------------------------------------------------------
def _abstract_dist():
    import z3
    from symrun.absx import Opaque
    key, val = z3.Function('key', z3.IntSort(), z3.IntSort()), z3.Function('val', z3.IntSort(), z3.RealSort())
    n = S.integer('n', 0, None)

    class AbsD(dd.FiniteDistribution):
        @property
        def support(self):
            return Opaque('support')

        def prob(self, e):
            raise S.Unsupported('prob of an abstract distribution')

        def items(self):
            return Opaque('items', owner=self)
    return AbsD(), key, val, n


def h_expectation_U():
    """expectation(f) == sum_{i<n} f(key(i)) * val(i)   for every length n, all events, probabilities and real-valued f (recursive ghost sum, loop cut)"""
    import z3, os
    from symrun.absx import Atom, rsum
    from symrun.cut import cut, CutSpec
    from symrun.driver import ROOT
    d, key, val, n = _abstract_dist()
    f = z3.Function('f', z3.IntSort(), z3.RealSort())
    Ssum = rsum('msum', lambda i: f(key(i)) * val(i))
    ghost, state = {}, {'phase': 'head'}

    def inv(L):
        if 'k' not in ghost:
            return S.eq(L['tot'], 0)
        k = ghost['k'] + (1 if state['phase'] == 'back' else 0)
        return S.eq(L['tot'], S.SymReal(Ssum(S.as_real(k).e if not isinstance(k, int) else k)))

    def toint(x):
        return z3.ToInt(S.as_real(x).e)

    def inv2(L):
        if 'k' not in ghost:
            return S.eq(L['tot'], 0)
        kk = ghost['kz'] + (1 if state['phase'] == 'back' else 0)
        return S.eq(L['tot'], S.SymReal(Ssum(kk)))

    def havoc(L):
        kz = z3.Int('ghost_k')
        S.cur().inputs['ghost_k'] = kz
        S.assume(S.SymBool(kz >= 0))
        ghost['k'] = True
        ghost['kz'] = kz
        return dict(tot=S.SymReal(Ssum(kz)), e=None, p=None)

    def element(L, it):
        S.assume(S.SymBool(ghost['kz'] < z3.ToInt(S.as_real(n).e)))
        state['phase'] = 'back'
        return (Atom(key(ghost['kz'])), S.SymReal(val(ghost['kz'])))
    spec = CutSpec(inv=inv2, havoc=havoc, element=element, exhausted=lambda L: S.SymBool(ghost['kz'] == z3.ToInt(S.as_real(n).e)),
                   iterable_ok=lambda L, v: getattr(v, 'owner', None) is d)
    fcut, text, info = cut(dd.FiniteDistribution.expectation, {0: spec}, dump_dir=os.path.join(ROOT, 'evidence', 'extracted'))
    res = fcut(d, lambda e: S.SymReal(f(e.e)))
    S.check('U:expectation:probability-weighted-sum-over-the-whole-support(any-length)', S.eq(res, S.SymReal(Ssum(z3.ToInt(S.as_real(n).e)))))


def h_marginalize_U():
    """marginalize(proj)(j) == sum_{i<n: proj(key(i)) = j} val(i)  for EVERY event j, every length n: quantified invariant over a z3 array accumulator"""
    import z3, os
    from symrun.absx import Atom, AbsMap, rsum2, fresh_atom
    from symrun.cut import cut, CutSpec
    from symrun.driver import ROOT
    d, key, val, n = _abstract_dist()
    proj = z3.Function('proj', z3.IntSort(), z3.IntSort())
    S2 = rsum2('msum2', lambda i, j: z3.If(proj(key(i)) == j, val(i), z3.RealVal(0)))
    nz = z3.ToInt(S.as_real(n).e)
    ghost, state = {}, {'phase': 'head'}
    J = fresh_atom('any_event')       # an ARBITRARY event fixed up-front: the invariant for it is inductive on its own, and J is arbitrary (generalisation)

    def quant(arr, k):
        return S.eq(S.SymReal(z3.Select(arr, J.e)), S.SymReal(S2(k, J.e)))

    def inv(L):
        nd = L['newdist']
        if 'kz' not in ghost:
            return S.truth(len(nd) == 0)          # the real defaultdict is still empty on entry
        kk = ghost['kz'] + (1 if state['phase'] == 'back' else 0)
        return quant(nd.arr, kk)

    def havoc(L):
        kz = z3.Int('ghost_k')
        S.cur().inputs['ghost_k'] = kz
        S.assume(S.SymBool(kz >= 0))
        ghost['kz'] = kz
        return dict(newdist=AbsMap(name='newdist'), e=None, p=None)

    def element(L, it):
        S.assume(S.SymBool(ghost['kz'] < nz))
        state['phase'] = 'back'
        return (Atom(key(ghost['kz'])), S.SymReal(val(ghost['kz'])))
    spec = CutSpec(inv=inv, havoc=havoc, element=element, exhausted=lambda L: S.SymBool(ghost['kz'] == nz), iterable_ok=lambda L, v: getattr(v, 'owner', None) is d)
    fcut, text, info = cut(dd.FiniteDistribution.marginalize, {0: spec}, dump_dir=os.path.join(ROOT, 'evidence', 'extracted'))
    with patched((dd, dict(DictDistribution=lambda m: m))):
        res = fcut(d, lambda e: Atom(proj(e.e)))
    S.check('U:marginalize:sums-the-probabilities-of-merged-events(every-event,any-length)', S.eq(res[J], S.SymReal(S2(nz, J.e))))


def h_mixture_U():
    """(a | b)(j) == sum_{i<na: keyA(i)=j} valA(i) + sum_{i<nb: keyB(i)=j} valB(i)  for every event j and all lengths: two cut loops over two abstract distributions"""
    import z3, os
    from symrun.absx import Atom, AbsMap, rsum2, fresh_atom, Opaque
    from symrun.cut import cut, CutSpec
    from symrun.driver import ROOT
    I, Rl = z3.IntSort(), z3.RealSort()
    keyA, valA, keyB, valB = z3.Function('keyA', I, I), z3.Function('valA', I, Rl), z3.Function('keyB', I, I), z3.Function('valB', I, Rl)
    na, nb = z3.Int('na'), z3.Int('nb')
    S.cur().inputs.update(na=na, nb=nb)
    S.assume(S.SymBool(z3.And(na >= 0, nb >= 0)))
    SA = rsum2('mixA', lambda i, j: z3.If(keyA(i) == j, valA(i), z3.RealVal(0)))
    SB = rsum2('mixB', lambda i, j: z3.If(keyB(i) == j, valB(i), z3.RealVal(0)))

    class AbsD(dd.FiniteDistribution):
        support = property(lambda self: Opaque('support'))
        def prob(self, e): raise S.Unsupported('prob of an abstract distribution')
        def items(self): return Opaque('items', owner=self)
    a, b = AbsD(), AbsD()
    J = fresh_atom('any_event')
    g = {0: {}, 1: {}}
    phase = {0: 'head', 1: 'head'}

    def mk(loop, key, val, n, Sfun, base):
        def inv(L):
            nd = L['newdist']
            if 'kz' not in g[loop]:
                if loop == 0:
                    return S.truth(len(nd) == 0)
                return S.eq(S.SymReal(z3.Select(nd.arr, J.e)), S.SymReal(SA(na, J.e)))      # entry of loop 1: loop 0 is finished
            kk = g[loop]['kz'] + (1 if phase[loop] == 'back' else 0)
            return S.eq(S.SymReal(z3.Select(nd.arr, J.e)), base() + S.SymReal(Sfun(kk, J.e)))

        def havoc(L):
            kz = z3.Int('ghost_k%d' % loop)
            S.cur().inputs['ghost_k%d' % loop] = kz
            S.assume(S.SymBool(kz >= 0))
            g[loop]['kz'] = kz
            return dict(newdist=AbsMap(name='newdist%d' % loop), e=None, p=None)

        def element(L, it):
            S.assume(S.SymBool(g[loop]['kz'] < n))
            phase[loop] = 'back'
            return (Atom(key(g[loop]['kz'])), S.SymReal(val(g[loop]['kz'])))
        return CutSpec(inv=inv, havoc=havoc, element=element, exhausted=lambda L: S.SymBool(g[loop]['kz'] == n),
                       iterable_ok=lambda L, v: getattr(v, 'owner', None) is (a, b)[loop])
    specs = {0: mk(0, keyA, valA, na, SA, lambda: 0), 1: mk(1, keyB, valB, nb, SB, lambda: S.SymReal(SA(na, J.e)))}
    fcut, text, info = cut(dd.FiniteDistribution.__or__, specs, dump_dir=os.path.join(ROOT, 'evidence', 'extracted'))
    with patched((dd, dict(DictDistribution=lambda m: m))):
        res = fcut(a, b)
    S.check('U:mixture:adds-the-probabilities-of-both-operands-pointwise(every-event,any-lengths)', S.eq(res[J], S.SymReal(SA(na, J.e)) + S.SymReal(SB(nb, J.e))))
