"""C19 -- entropy-regularised policy iteration converges to the soft Bellman fixed point."""
import math, itertools, random as _random, contextlib
from fractions import Fraction
import numpy as np
from symrun import core as S
from symrun.driver import Task, Sentinel
from symrun.patch import patched
from symrun.npf import NP, sym_array, SymArray
from symrun.torchf import TORCH, _log1
from specs import mdpspec as M

import msdm.algorithms.entregpolicyiteration as er

FILES = ['msdm/algorithms/entregpolicyiteration.py']
FUNCTIONS = ['msdm.algorithms.entregpolicyiteration.clamp_zero', 'msdm.algorithms.entregpolicyiteration.entropy_regularized_policy_iteration',
             'msdm.algorithms.entregpolicyiteration.EntropyRegularizedPolicyIteration.plan_on']
ASSUMPTIONS = [
    'torch operations equal their mathematical definitions (thin facade over object arrays; linear solves on numeral matrices are exact rational eliminations)',
    'log and exp are UNINTERPRETED in the symbolic tier (log(1)=0, exp(0)=1, positivity, strict monotonicity instantiated pairwise): the evaluation and look-ahead clauses are '
    'linear in the rewards and hold by congruence for the same log terms; the softmax / log-sum-exp identities themselves are decided only in the run-time tier on floats',
    'symbolic tier = ONE arbitrary policy-evaluation + improvement step from an arbitrary positive policy (initial_policy is an argument): the inductive step of the loop',
    'tier B: shapes (S,A) in {(2,2),(3,2)} (thorough adds (4,3)); transition tensor, discount, entropy weights (scalar and per-state), prior and policy generic rationals; rewards symbolic',
    'the limit entropy weight -> 0 is a statement about a family of runs: not expressible as a contract on one call (not decided; sampled at run time only)',
]
LEMMAS = ['L14: if pi = softmax(q/w + log prior) exactly then v[s] = w*log sum_a prior[a] exp(q[s,a]/w) (two-line algebra; checked numerically at run time)']
NOT_DECIDED = ['the limit entropy weight -> 0', 'size of the log-sum-exp error at an approximate fixed point']
EXPLANATION = 'C19: one symbolic step of entropy_regularized_policy_iteration (evaluation equation with KL term, look-ahead of the returned values, improvement = prior-weighted softmax); converged fixed-point identities at run time.'


def gen(shape, seed, positive=True):
    rnd = _random.Random('c19/%s/%s' % (shape, seed))
    return rnd


def h_step(Sn, An, weight_kind, prior_kind, force, seed):
    rnd = _random.Random('c19/%d/%d/%s/%s/%s' % (Sn, An, weight_kind, prior_kind, seed))
    Tn = [[M._generic_simplex(rnd, Sn) if Sn > 1 else [1.0] for _ in range(An)] for _ in range(Sn)]
    R = [[[S.real('R_%d_%d_%d' % (s, a, n)) for n in range(Sn)] for a in range(An)] for s in range(Sn)]
    g = S.const(Fraction(rnd.choice([1, 3, 9]), 10))
    if weight_kind == 'scalar':
        w = [S.const(Fraction(rnd.choice([1, 3, 7]), rnd.choice([2, 5])))]
    else:
        w = [S.const(Fraction(rnd.choice([1, 2, 3, 5, 7]), rnd.choice([2, 3, 5]))) for _ in range(Sn)]
    if prior_kind == 'shared':
        pi0 = [M._generic_simplex(rnd, An) if An > 1 else [1.0]]
    else:
        pi0 = [M._generic_simplex(rnd, An) if An > 1 else [1.0] for _ in range(Sn)]
    pi = [M._generic_simplex(rnd, An) if An > 1 else [1.0] for _ in range(Sn)]
    if not S.symbolic():
        raise S.PathInfeasible()
    with patched((er, dict(torch=TORCH, np=NP))):
        res = er.entropy_regularized_policy_iteration(
            transition_matrix=TORCH.tensor(sym_array(Tn)), reward_matrix=TORCH.tensor(sym_array(R)), discount_rate=g,
            entropy_weight=TORCH.tensor(sym_array(w)), n_planning_iters=1, policy_prior=TORCH.tensor(sym_array(pi0)), initial_policy=TORCH.tensor(sym_array(pi)),
            check_convergence=True, force_nonzero_probabilities=force)
    q, vv = res.action_values, res.state_values
    W = lambda s: w[0] if len(w) == 1 else w[s]
    P0 = lambda s, a: pi0[0][a] if len(pi0) == 1 else pi0[s][a]
    S.check('entreg:action-values-are-the-one-step-look-ahead-of-the-returned-state-values', S.And(
        [S.eq(q[s, a], S.Sum(Tn[s][a][n] * (R[s][a][n] + g * vv[n]) for n in range(Sn))) for s in range(Sn) for a in range(An)]))
    ok = []
    for s in range(Sn):
        rpi = S.Sum(pi[s][a] * S.Sum(Tn[s][a][n] * R[s][a][n] for n in range(Sn)) for a in range(An))
        kl = S.Sum(pi[s][a] * _log1(S.as_real(pi[s][a]) / S.as_real(P0(s, a))) for a in range(An))
        fut = S.Sum(S.Sum(pi[s][a] * Tn[s][a][n] for a in range(An)) * vv[n] for n in range(Sn))
        ok.append(S.eq(vv[s], rpi - W(s) * kl + g * fut))
    S.check('entreg:state-values-solve-the-regularised-evaluation-equation(reward-minus-weight*KL(pi||prior))', S.And(ok))
    # improvement: prior-weighted softmax of the action values at the given temperature (same uninterpreted exp/log terms)
    okp = []
    ret = res.policy
    for s in range(Sn):
        z = [q[s, a] * (1 / S.as_real(W(s))) + _log1(S.as_real(P0(s, a))) for a in range(An)]
        mx = S.Max(z)
        ex = [S.MATH.exp(z[a] - mx) for a in range(An)]
        tot = S.Sum(ex)
        tiny = 2.2250738585072014e-308
        for a in range(An):
            if force:       # forced non-zero probabilities: clamped from below at the smallest normal float
                okp.append(S.Or(S.eq(ret[s, a], S.Max([ex[a] / tot, tiny])), S.eq(ret[s, a], S.Max([pi[s][a], tiny]))))
            else:
                okp.append(S.Or(S.eq(ret[s, a] * tot, ex[a]), S.eq(ret[s, a], pi[s][a])))
    S.check('entreg:returned-policy-is-the-prior-weighted-softmax-of-the-action-values(or-the-unchanged-converged-policy)', S.And(okp))
    S.check('entreg:state-rewards-and-entropy-outputs', S.And(
        [S.eq(res.state_rewards[s], S.Sum(pi[s][a] * S.Sum(Tn[s][a][n] * R[s][a][n] for n in range(Sn)) for a in range(An))) for s in range(Sn)]))
    S.check('mustfail:values-ignore-the-entropy-term', S.And([S.eq(vv[s], S.Sum(pi[s][a] * S.Sum(Tn[s][a][n] * R[s][a][n] for n in range(Sn)) for a in range(An)) +
                                                                  g * S.Sum(S.Sum(pi[s][a] * Tn[s][a][n] for a in range(An)) * vv[n] for n in range(Sn))) for s in range(Sn)]))


def rt_fixed_point(seed, n):
    """R: run the real torch function to convergence on random inputs; check the three fixed-point identities of the property on floats"""
    import random, torch, warnings
    rnd = random.Random(seed)
    torch.set_num_threads(1)
    out = []
    for k in range(n):
        Sn, An = rnd.randint(2, 5), rnd.randint(1, 4)
        gen = torch.Generator().manual_seed(seed * 1000 + k)
        tf = torch.rand(Sn, An, Sn, generator=gen, dtype=torch.float64) + 0.05
        tf = tf / tf.sum(-1, keepdim=True)
        rf = torch.randint(-3, 4, (Sn, An, Sn), generator=gen).to(torch.float64)
        g = rnd.choice([0.3, 0.7, 0.9])
        per_state = rnd.random() < .5
        w = torch.tensor([rnd.choice([1e-2, 0.1, 1.0, 10.0]) for _ in range(Sn if per_state else 1)], dtype=torch.float64)
        shared_prior = rnd.random() < .5
        pr = torch.rand((1 if shared_prior else Sn), An, generator=gen, dtype=torch.float64) + 0.1
        pr = pr / pr.sum(-1, keepdim=True)
        force = rnd.random() < .5
        with warnings.catch_warnings():
            warnings.simplefilter('ignore')
            res = er.entropy_regularized_policy_iteration(tf, rf, g, w if per_state else float(w[0]), n_planning_iters=3000, policy_prior=pr,
                                                          check_convergence=True, force_nonzero_probabilities=force)
        wit = dict(S=Sn, A=An, gamma=g, weights=w.tolist(), shared_prior=shared_prior, force=force, k=k)
        if not res.converged:
            continue
        q, v_, pi = res.action_values, res.state_values, res.policy
        look = (tf * (rf + g * v_[None, None, :])).sum(-1)
        out.append(dict(name='rt:entreg:converged=>action-values-are-the-look-ahead-of-the-state-values', ok=bool(torch.allclose(q, look, atol=1e-8)), witness=wit))
        ww = w[:, None] if per_state else w[0]
        soft = torch.softmax(q / ww + torch.log(pr), -1)
        out.append(dict(name='rt:entreg:converged=>policy-is-the-prior-weighted-softmax-of-the-action-values', ok=bool(torch.allclose(pi, soft, atol=1e-4, rtol=1e-4)), witness=wit))
        lse = (w if per_state else w[0]) * torch.logsumexp(q / ww + torch.log(pr), -1)
        err = float((v_ - lse).abs().max())
        scale = float(1 + v_.abs().max())
        out.append(dict(name='rt:entreg:converged=>state-values-are-the-prior-weighted-log-sum-exp', ok=err < 1e-3 * scale * max(1.0, float(w.max())), witness=dict(wit, err=err)))
    # small-weight limit against value iteration (sampled; the limit itself is not decided)
    for k in range(max(1, n // 8)):
        Sn, An = 3, 2
        gen = torch.Generator().manual_seed(seed * 77 + k)
        tf = torch.rand(Sn, An, Sn, generator=gen, dtype=torch.float64) + 0.05
        tf = tf / tf.sum(-1, keepdim=True)
        rf = torch.randint(-3, 4, (Sn, An, Sn), generator=gen).to(torch.float64)
        g = 0.8
        with warnings.catch_warnings():
            warnings.simplefilter('ignore')
            res = er.entropy_regularized_policy_iteration(tf, rf, g, 1e-3, n_planning_iters=5000)
        V = torch.zeros(Sn, dtype=torch.float64)
        for _ in range(2000):
            Q = (tf * (rf + g * V[None, None, :])).sum(-1)
            V = Q.max(-1).values
        out.append(dict(name='rt:entreg:small-weight-uniform-prior-action-values-close-to-the-optimal-ones(sampled)', ok=bool((res.action_values - Q).abs().max() < 0.05), witness=dict(k=k)))
    return out


def rt_wrapper(seed, n):
    import random, warnings
    from msdm.core.mdp import QuickTabularMDP
    from msdm.core.distributions import DictDistribution
    rnd = random.Random(seed)
    out = []
    for k in range(n):
        T = {(0, 'l'): {1: .6, 0: .4}, (0, 'r'): {2: 1.}, (1, 'l'): {2: .5, 0: .5}, (1, 'r'): {1: 1.}, (2, 'l'): {2: 1.}, (2, 'r'): {2: 1.}}
        R = {(0, 'l', 1): -1., (0, 'l', 0): -.5, (0, 'r', 2): -3., (1, 'l', 2): 2., (1, 'l', 0): -1., (1, 'r', 1): -.2}
        g = rnd.choice([.5, .9])
        m = QuickTabularMDP(next_state_dist=lambda s, a: DictDistribution(T[(s, a)]), reward=lambda s, a, ns: R.get((s, a, ns), 0.), actions=('l', 'r'),
                            initial_state_dist=DictDistribution({0: .5, 1: .5}), is_absorbing=lambda s: False, discount_rate=g)
        with warnings.catch_warnings():
            warnings.simplefilter('ignore')
            res = er.EntropyRegularizedPolicyIteration(entropy_weight=rnd.choice([.1, 1.])).plan_on(m)
        sl, al = list(m.state_list), list(m.action_list)
        ok = all(abs(res.V[s] - res._valuevec[i]) < 1e-12 for i, s in enumerate(sl)) and all(abs(res.Q[s][a] - res._qvaluemat[i, j]) < 1e-12 for i, s in enumerate(sl) for j, a in enumerate(al))
        ok = ok and all(abs(res.policy[s][a] - np.asarray(res.policy)[i, j]) < 1e-12 for i, s in enumerate(sl) for j, a in enumerate(al))
        out.append(dict(name='rt:plan_on:tables-transcribe-the-arrays-under-the-state/action-lists', ok=bool(ok), witness=dict(gamma=g)))
        # a planner OBJECT reused on a second model with OTHER state-dependent action sets must plan like a fresh one (nothing model-specific may stick to it)
        acts_a = {0: ('l', 'r'), 1: ('l',), 2: ('l', 'r')}
        acts_b = {0: ('r',), 1: ('l', 'r'), 2: ('l', 'r')}
        def mk_model(acts_):
            return QuickTabularMDP(next_state_dist=lambda s, a: DictDistribution(T[(s, a)]), reward=lambda s, a, ns: R.get((s, a, ns), 0.), actions=lambda s: acts_[s],
                                   initial_state_dist=DictDistribution({0: .5, 1: .5}), is_absorbing=lambda s: False, discount_rate=g)
        wgt2 = rnd.choice([.3, 1.])
        with warnings.catch_warnings():
            warnings.simplefilter('ignore')
            planner = er.EntropyRegularizedPolicyIteration(entropy_weight=wgt2)
            planner.plan_on(mk_model(acts_a))
            r_reused = planner.plan_on(mk_model(acts_b))
            r_fresh = er.EntropyRegularizedPolicyIteration(entropy_weight=wgt2).plan_on(mk_model(acts_b))
        same = all(abs(r_reused.V[s_] - r_fresh.V[s_]) < 1e-9 for s_ in r_fresh.V) and all(
            abs(r_reused.policy[s_][a_] - r_fresh.policy[s_][a_]) < 1e-9 for s_ in r_fresh.V for a_ in ('l', 'r'))
        legal = all(r_reused.policy[s_][a_] < 1e-9 for s_ in acts_b for a_ in ('l', 'r') if a_ not in acts_b[s_])
        out.append(dict(name='rt:plan_on:a-planner-object-reused-on-a-model-with-other-action-sets-plans-like-a-fresh-one', ok=bool(same and legal),
                        witness=dict(gamma=g, weight=wgt2, reused=repr({s_: float(x) for s_, x in r_reused.V.items()}), fresh=repr({s_: float(x) for s_, x in r_fresh.V.items()}))))
        # the wrapper's own convergence flag under small iteration budgets: whenever it REPORTS convergence the tables are the soft Bellman fixed point
        for budget in (1, 2, 3, 5):
            wgt = rnd.choice([.1, 1., 3.])
            with warnings.catch_warnings():
                warnings.simplefilter('ignore')
                rb = er.EntropyRegularizedPolicyIteration(iterations=budget, entropy_weight=wgt).plan_on(m)
            if rb.converged:
                worst = 0.0
                for s_ in sl:
                    zs = [rb.Q[s_][a_] / wgt + math.log(1.0 / len(al)) for a_ in al]
                    mx = max(zs)
                    lse = wgt * (mx + math.log(sum(math.exp(z - mx) for z in zs)))
                    worst = max(worst, abs(rb.V[s_] - lse))
                out.append(dict(name='rt:plan_on:a-reported-convergence-under-a-small-iteration-budget-is-the-soft-Bellman-fixed-point', ok=worst < 1e-3 * (1 + max(abs(x) for x in rb.V.values())),
                                witness=dict(gamma=g, budget=budget, weight=wgt, err=worst, iterations=int(rb.iterations))))
            else:
                out.append(dict(name='rt:plan_on:an-exhausted-budget-is-reported-as-not-converged', ok=True, witness=dict(budget=budget)))
        out.append(dict(name='rt:plan_on:initial-value-is-the-initial-expectation-of-V', ok=abs(res.initial_value - sum(p * res.V[s] for s, p in {0: .5, 1: .5}.items())) < 1e-12, witness=dict(gamma=g)))
    return out


def tasks(tier, seed):
    T = []
    shapes = [(2, 2), (3, 2)] + ([(2, 3), (3, 3)] if tier == 'thorough' else [])      # (4,3) needs 50-120 s per obligation in the solvers: verdicts near the budget are unstable
    for (Sn, An) in shapes:
        for wk in ('scalar', 'per-state'):
            for pk in ('shared', 'per-state'):
                for force in (True, False):
                    if tier == 'quick' and (Sn, An) == (3, 2) and not force and pk == 'shared':
                        continue
                    T.append(Task('step/S%dA%d/weight-%s/prior-%s/%s' % (Sn, An, wk, pk, 'forced-nonzero' if force else 'plain'), h_step, (Sn, An, wk, pk, force, seed), tier='B',
                                  expect_fail=('mustfail:values-ignore-the-entropy-term',), vc_timeout_ms=30000, deadline_s=400))
    T.append(Task('rt/fixed-point', rt_fixed_point, (seed, 40 if tier == 'quick' else 300), tier='R', kind='rt', deadline_s=900))
    T.append(Task('rt/wrapper', rt_wrapper, (seed, 4), tier='R', kind='rt'))
    return T


MANIFEST_ENTRY = dict(
    category='other',
    text=('Contract on entropy_regularized_policy_iteration as the inductive step of its loop (one evaluation + improvement from an arbitrary positive policy): the returned '
          'action values are the one-step look-ahead of the returned state values, the state values solve the evaluation equation with the weight*KL(pi||prior) term (scalar and '
          'per-state weights, shared and per-state priors), the improved policy is the prior-weighted softmax -- proved by z3 for all rewards with log/exp uninterpreted. The '
          'converged fixed-point identities (softmax policy, log-sum-exp values) and the wrapper are checked at run time on the real torch code.'),
    note='Bounded shapes, generic rational parameters, log/exp uninterpreted (tier B); the entropy-weight -> 0 limit is not decidable by a contract on one call (sampled at run time only).',
)
END_MANIFEST_ENTRY = True


SENTINELS = globals().get('SENTINELS', []) + [
    Sentinel('improvement-scales-the-prior-too', 'msdm.algorithms.entregpolicyiteration', '        new_pi = torch.softmax(q_action + torch.log(pi0), -1)',
             '        new_pi = torch.softmax(q_action + (1/entropy_weight[:,None])*torch.log(pi0), -1)', ['re:^step/S2A2/weight-scalar/prior-shared']),
]
