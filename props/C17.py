"""C17 -- R-MAX stays optimistic about what it has not tried often enough."""
import math, itertools, random as _random, contextlib, os
from fractions import Fraction
import numpy as np
from symrun import core as S
from symrun.driver import Task, Sentinel
from symrun.patch import patched
from symrun.rngf import DemonicRng, Tripwire
from symrun.npf import NP, sym_array, SymArray
from symrun.cut import cut, CutSpec
from specs import mdpspec as M
from specs.mdpspec import Skel

import msdm.algorithms.rmax as rm
import msdm.core.distributions.distributions as dd
import msdm.core.distributions.dictdistribution as dct

FILES = ['msdm/algorithms/rmax.py']
FUNCTIONS = ['msdm.algorithms.rmax.RMAX.' + f for f in ('__init__', '_init_training', '_act', '_observe', '_value_iteration', '_self_transition_mat', '_training',
                                                         '_create_q', '_create_policy', 'train_on', '_init_random_number_generator')]
ASSUMPTIONS = [
    'requires (from the property): every action available in every state; rmax = max reward; discount < 1',
    '_value_iteration: its `while True` loop is cut by the invariant (entries of insufficiently tried pairs untouched at rmax/(1-gamma), all entries <= rmax/(1-gamma)); '
    'any number of sweeps; termination NOT proved',
    '_training / train_on: _value_iteration replaced by its contract (stub) at its call site; demonic generator, episodes <= 2, draw budget per run',
    'tier B: shapes (S,A) in {(2,2),(3,2)}, thresholds m in {1,2,3}; discount a generic rational; rewards, tolerance symbolic',
    'floats are mathematical reals',
]
LEMMAS = []
NOT_DECIDED = ['termination of the inner `while True`', 'PAC guarantees', 'runs beyond the bound']
EXPLANATION = 'C17: _value_iteration by loop cutting; _observe/_act/_training/_create_q/_create_policy against the optimism and empirical-Bellman clauses with a ghost experience log.'


def episodic():
    A = ('x', 'y')
    return [
        Skel('r3', ['a', 'b', 'g'], {s: A for s in ('a', 'b', 'g')},
             {('a', 'x'): ('b', 'a'), ('a', 'y'): ('g',), ('b', 'x'): ('g', 'a'), ('b', 'y'): ('b', 'g'), ('g', 'x'): ('g',), ('g', 'y'): ('g',)},
             absorbing=['g'], init=['a']),
        Skel('r2', [0, 1], {0: A, 1: A}, {(0, 'x'): (0, 1), (0, 'y'): (1,), (1, 'x'): (1,), (1, 'y'): (1,)}, absorbing=[1], init=[0]),
        # falsy action labels, appended last (other modules index this list by position)
        Skel('r2-falsy-actions', [0, 1], {0: ('', 0), 1: ('', 0)}, {(0, ''): (0, 1), (0, 0): (1,), (1, ''): (1,), (1, 0): (1,)}, absorbing=[1], init=[0]),
    ]


@contextlib.contextmanager
def facades(uses, budget):
    trip = Tripwire('random', uses, private_budget=budget)
    if not S.symbolic():
        with patched((rm, dict(random=trip)), (dd, dict(random=trip)), (dct, dict(random=trip))):
            yield
        return
    with M.facades(rm), patched((rm, dict(random=trip)), (dd, dict(random=trip)), (dct, dict(random=trip))):
        yield


def vi_post(q, counts, m, Rhat, That, g, tol, vmax, prefix):
    Sn, An = counts.shape
    vmaxq = [S.Max([q[n, b] for b in range(An)]) for n in range(Sn)]
    ok_b, ok_o, ok_u = [], [], []
    for s in range(Sn):
        for a in range(An):
            ok_u.append(S.le(q[s, a], vmax))
            if counts[s, a] >= m:
                ok_b.append(S.lt(abs(q[s, a] - (Rhat[s][a] + g * S.Sum(That[s][a][n] * vmaxq[n] for n in range(Sn)))), tol))
            else:
                ok_o.append(S.eq(q[s, a], vmax))
    return {prefix + ':tried>=m:Bellman-equation-of-the-empirical-model-within-tolerance': S.And(ok_b),
            prefix + ':tried<m:exactly-the-optimistic-value-rmax/(1-gamma)': S.And(ok_o),
            prefix + ':never-above-rmax/(1-gamma)': S.And(ok_u)}


def h_value_iteration(Sn, An, count_pattern, m):
    """the real _value_iteration with its while-loop cut; object state = any state satisfying the object invariant"""
    counts = np.array(count_pattern, dtype=float).reshape(Sn, An)
    g = S.const(Fraction(9, 10))
    rmax = S.real('rmax')
    tol = S.real('tol', 0, None, lo_strict=True)
    vmax = rmax / (1 - g)
    rnd = _random.Random('vi/%s/%s' % (count_pattern, m))
    trans = np.zeros((Sn, An, Sn))
    rew = [[0.0] * An for _ in range(Sn)]
    for s in range(Sn):
        for a in range(An):
            c = int(min(counts[s, a], m))
            for _ in range(c):
                trans[s, a, rnd.randrange(Sn)] += 1
            if c:
                rew[s][a] = S.real('rew_%d_%d' % (s, a))
                S.assume(S.le(rew[s][a], c * rmax))
    learner = rm.RMAX(episodes=1, rmax=rmax, num_transition_samples=m, bellman_convergence_diff=tol, seed=0)
    learner.n_states, learner.n_actions = Sn, An
    learner.rewards = sym_array(rew)
    learner.transitions = trans.astype(object).view(SymArray)
    learner.s_a_counts = np.minimum(counts, m).astype(object).view(SymArray)
    q0 = sym_array([[vmax if counts[s, a] < m else S.real('q0_%d_%d' % (s, a)) for a in range(An)] for s in range(Sn)])
    for s in range(Sn):
        for a in range(An):
            if counts[s, a] >= m:
                S.assume(S.le(q0[s, a], vmax))
    learner.q_matrix = q0
    mask = counts >= m
    Rhat = [[(rew[s][a] / int(min(counts[s, a], m))) if counts[s, a] > 0 else 0.0 for a in range(An)] for s in range(Sn)]
    That = [[[S.const(Fraction(int(trans[s, a, n]), int(min(counts[s, a], m)))) if mask[s, a] else (1.0 if n == s else 0.0) for n in range(Sn)] for a in range(An)] for s in range(Sn)]

    def inv(L):
        q = L['self'].q_matrix
        return S.And([S.eq(q[s, a], vmax) for s in range(Sn) for a in range(An) if not mask[s, a]] +
                     [S.le(q[s, a], vmax) for s in range(Sn) for a in range(An)])

    def havoc(L):
        self_ = L['self']
        self_.q_matrix = sym_array([[vmax if not mask[s, a] else S.real('h_q_%d_%d' % (s, a)) for a in range(An)] for s in range(Sn)])
        return dict(self=self_, v=None, new_q=None)
    spec = CutSpec(inv=inv, havoc=havoc)
    f, text, info = cut(rm.RMAX._value_iteration, {0: spec}, dump_dir=_dump())
    with patched((rm, dict(np=NP))):
        f(learner, g)
    for name, c in vi_post(learner.q_matrix, counts, m, Rhat, That, g, tol, vmax, '_value_iteration[cut]').items():
        S.check(name, c)
    S.check('_value_iteration:model-arrays-are-not-modified', S.truth(np.array_equal(np.asarray(learner.transitions, dtype=float), trans)))


def _dump():
    import os
    from symrun.driver import ROOT
    return os.path.join(ROOT, 'evidence', 'extracted')


def stub_vi(model_of):
    """contract of _value_iteration used at its call site inside _observe"""
    def stub(self, gamma):
        r = S.cur()
        counts = np.asarray(self.s_a_counts, dtype=float)
        Sn, An = counts.shape
        m = self.m
        vmax = self.rmax / (1 - gamma)
        # requires: object invariant (reward sums bounded, transition histograms sum to the count)
        ok = []
        for s in range(Sn):
            for a in range(An):
                ok.append(S.eq(S.Sum(self.transitions[s, a, n] for n in range(Sn)), counts[s, a]))
                ok.append(S.le(self.rewards[s, a], counts[s, a] * self.rmax))
                ok.append(S.le(self.q_matrix[s, a], vmax))
        S.check('stub:_value_iteration:requires(object-invariant)', S.And(ok))
        newq = np.empty((Sn, An), dtype=object)
        for s in range(Sn):
            for a in range(An):
                newq[s, a] = S.real(r.fresh('vi_q_%d_%d' % (s, a))) if counts[s, a] >= m else self.q_matrix[s, a]
        Rhat = [[(self.rewards[s, a] / counts[s, a]) if counts[s, a] > 0 else 0.0 for a in range(An)] for s in range(Sn)]
        That = [[[(self.transitions[s, a, n] / counts[s, a]) if counts[s, a] >= m else (1.0 if n == s else 0.0) for n in range(Sn)] for a in range(An)] for s in range(Sn)]
        post = vi_post(newq, counts, m, Rhat, That, gamma, self.bellman_convergence_diff, vmax, 'stub')
        for c in post.values():
            S.assume(c)
        self.q_matrix[...] = newq
    return stub


def h_train(sk, m, episodes, budget):
    mdp, v = M.make_mdp(sk, gamma='sym', numeric='generic', nseed=1)
    g = v.gamma
    tol = S.real('tol', 0, None, lo_strict=True)
    rmax = S.Max([x for x in v.R.values()] + [0])      # reward_matrix also holds zeros for absent entries
    uses = []
    exp = []

    class Listener(rm.RMAXEventListener):
        def __init__(self): pass

        def end_of_timestep(self, L):
            s, a, ns, r = L['s'], L['a'], L['ns'], L['r']
            ok = [S.truth(s not in sk.absorbing and a in sk.actions.get(s, ()) and (s, a) in sk.supp and ns in sk.supp[(s, a)])]
            if (s, a) in sk.supp and ns in sk.supp[(s, a)]:
                ok.append(S.eq(r, v.R[(s, a, ns)]))
            S.check('RMAX:experienced-step-is-a-real-transition-with-the-model-reward', S.And(ok))
            exp.append((s, a, ns, r))

        def end_of_episode(self, L): pass
        def results(self): return None
    with facades(uses, budget), patched((rm.RMAX, {})):
        orig = rm.RMAX._value_iteration
        rm.RMAX._value_iteration = stub_vi(None) if S.symbolic() else orig
        try:
            learner = rm.RMAX(episodes=episodes, rmax=rmax, num_transition_samples=m, bellman_convergence_diff=tol, seed=4, event_listener_class=Listener)
            res = learner.train_on(mdp)
        finally:
            rm.RMAX._value_iteration = orig
        sl, al = list(mdp.state_list), list(mdp.action_list)
        Sn, An = len(sl), len(al)
        # ghost model: first m samples of every pair
        cnt = {}
        rsum = {}
        hist = {}
        for (s, a, ns, r) in exp:
            k = (s, a)
            if cnt.get(k, 0) < m:
                cnt[k] = cnt.get(k, 0) + 1
                rsum[k] = rsum.get(k, 0) + r
                hist.setdefault(k, {}).setdefault(ns, 0)
                hist[k][ns] += 1
        total = {}
        for (s, a, ns, r) in exp:
            total[(s, a)] = total.get((s, a), 0) + 1
        counts = np.array([[total.get((s, a), 0) for a in al] for s in sl], dtype=float)
        q = np.empty((Sn, An), dtype=object)
        okq = []
        for i, s in enumerate(sl):
            okq.append(S.truth(set(res.q_values[s].keys()) == set(al)))
            for j, a in enumerate(al):
                q[i, j] = res.q_values[s][a]
                okq.append(S.eq(res.q_values[s][a], learner.q_matrix[i, j]))
        S.check('_create_q:dictionary-cells-are-the-matrix-cells-under-the-state/action-lists', S.And(okq + [S.truth(set(res.q_values.keys()) == set(sl))]))
        Rhat = [[(rsum[(s, a)] / cnt[(s, a)]) if cnt.get((s, a), 0) else 0.0 for a in al] for s in sl]
        That = [[[S.const(Fraction(hist[(s, a)].get(n, 0), cnt[(s, a)])) if total.get((s, a), 0) >= m else (1.0 if n == s else 0.0) for n in sl] for a in al] for s in sl]
        vmax = rmax / (1 - g)
        for name, c in vi_post(q, counts, m, Rhat, That, g, tol, vmax, 'RMAX').items():
            S.check(name, c)
        okp = []
        for s in sl:
            d = res.policy.action_dist(s)
            mx = S.Max([res.q_values[s][a] for a in al])
            best = [a for a in al if bool(res.q_values[s][a] == mx)]
            okp.append(S.truth(set(d.support) == set(best)))
        S.check('RMAX:returned-policy-is-greedy-for-the-returned-Q-values', S.And(okp))
        S.check('RMAX:only-the-private-seeded-generator-is-used', S.truth(not [u for u in uses if 'Random' not in u]), detail=repr(uses))


def rt_real(seed, n):
    """R: un-stubbed RMAX with real seeds on a concrete episodic MDP; all clauses on floats, empirical model rebuilt from the recorded experience"""
    import random
    from msdm.core.mdp import QuickTabularMDP
    from msdm.core.distributions import DictDistribution
    rnd = random.Random(seed)
    out = []
    for k in range(n):
        Sn = rnd.choice([3, 4])
        acts = ('u', 'v')
        T = {}
        R = {}
        for s in range(Sn - 1):
            for a in acts:
                sup = [rnd.randrange(s + 1, Sn)] + ([rnd.randrange(Sn)] if rnd.random() < .6 else [])   # proper: always a chance to move forward
                sup = list(dict.fromkeys(sup))
                ws = [rnd.choice([1, 2, 3]) for _ in sup]
                T[(s, a)] = {n: w / sum(ws) for n, w in zip(sup, ws)}
                for n_ in sup:
                    R[(s, a, n_)] = rnd.choice([-1., -.5, 0., .5, 1.])
        for a in acts:
            T[(Sn - 1, a)] = {Sn - 1: 1.}
        # make the goal reachable and rmax exact
        T[(0, 'u')] = {Sn - 1: .5, 0: .5}
        R[(0, 'u', Sn - 1)] = 1.
        R[(0, 'u', 0)] = -.25
        g = rnd.choice([.5, .9, .95])
        mdp = QuickTabularMDP(next_state_dist=lambda s, a: DictDistribution(T[(s, a)]), reward=lambda s, a, ns: R.get((s, a, ns), 0.), actions=acts,
                              initial_state_dist=DictDistribution({0: 1.}), is_absorbing=lambda s: s == Sn - 1, discount_rate=g)
        reach = mdp.reachable_states()
        if len(reach) != len(mdp.state_list):
            continue
        rmax = float(np.max(mdp.reward_matrix))
        m = rnd.choice([1, 2, 3, 5])
        tol = rnd.choice([1e-5, 1e-3])
        exp = []

        class L(rm.RMAXEventListener):
            def __init__(self): pass
            def end_of_timestep(self, lv): exp.append((lv['s'], lv['a'], lv['ns'], lv['r']))
            def end_of_episode(self, lv): pass
            def results(self): return None
        res = rm.RMAX(episodes=rnd.choice([2, 8]), rmax=rmax, num_transition_samples=m, bellman_convergence_diff=tol, seed=k, event_listener_class=L).train_on(mdp)
        sl, al = list(mdp.state_list), list(mdp.action_list)
        vmax = rmax / (1 - g)
        cnt, rs, hs, tot = {}, {}, {}, {}
        for (s, a, ns, r) in exp:
            tot[(s, a)] = tot.get((s, a), 0) + 1
            if cnt.get((s, a), 0) < m:
                cnt[(s, a)] = cnt.get((s, a), 0) + 1
                rs[(s, a)] = rs.get((s, a), 0.) + r
                hs.setdefault((s, a), {}).setdefault(ns, 0)
                hs[(s, a)][ns] += 1
        q = res.q_values
        worst = 0.0
        ok_opt, ok_ub = True, True
        for s in sl:
            for a in al:
                ok_ub &= q[s][a] <= vmax + 1e-9
                if tot.get((s, a), 0) < m:
                    ok_opt &= abs(q[s][a] - vmax) < 1e-9
                else:
                    rhs = rs[(s, a)] / m + g * sum(c / m * max(q[n].values()) for n, c in hs[(s, a)].items())
                    worst = max(worst, abs(q[s][a] - rhs))
        w = dict(T=repr(T), R=repr(R), gamma=g, m=m, tol=tol, seed=k)
        out.append(dict(name='rt:RMAX:tried<m:exactly-the-optimistic-value', ok=ok_opt, witness=w))
        out.append(dict(name='rt:RMAX:never-above-rmax/(1-gamma)', ok=ok_ub, witness=w))
        out.append(dict(name='rt:RMAX:tried>=m:empirical-Bellman-equation-within-the-configured-tolerance', ok=worst < tol, witness=dict(w, residual=worst)))
        out.append(dict(name='rt:RMAX:experience-is-real', ok=all(ns in T[(s, a)] and T[(s, a)][ns] > 0 and r == R.get((s, a, ns), 0.) and s != Sn - 1 for (s, a, ns, r) in exp), witness=w))
        # a learner OBJECT that has already been trained on a model of ANOTHER size must behave like a fresh one (nothing of the first model may survive in it)
        n2 = Sn + 2
        aux = QuickTabularMDP(next_state_dist=lambda s, a: DictDistribution({min(s + 1, n2 - 1): .75, s: .25}) if a == 'u' else DictDistribution({max(s - 1, 0): .6, min(s + 1, n2 - 1): .4}),      # every action can move forward: every policy is proper, episodes end
                              reward=lambda s, a, ns: (rmax if (ns == n2 - 1 and s != n2 - 1) else (0. if rmax > 0 else -1.)) if s != n2 - 1 else 0., actions=acts,
                              initial_state_dist=DictDistribution({0: 1.}), is_absorbing=lambda s: s == n2 - 1, discount_rate=g)
        if (k % 8 == 0 or os.environ.get('C17_REUSE_ALL')) and float(np.max(aux.reward_matrix)) == rmax:      # three extra trainings: sampled, not on every instance
            mk = lambda: rm.RMAX(episodes=2, rmax=rmax, num_transition_samples=m, bellman_convergence_diff=tol, seed=k)
            fresh = mk().train_on(mdp)
            reused = mk()
            reused.train_on(aux)
            r2 = reused.train_on(mdp)
            same = all(abs(r2.q_values[s][a] - fresh.q_values[s][a]) < 1e-12 for s in sl for a in al) and set(r2.q_values) == set(fresh.q_values)
            out.append(dict(name='rt:RMAX:a-learner-object-reused-after-a-model-of-another-size-equals-a-fresh-one', ok=bool(same), witness=dict(w, first_model_states=n2)))
    return out


def count_patterns(Sn, An, m):
    rnd = _random.Random('cp/%d/%d/%d' % (Sn, An, m))
    pats = [tuple([m] * (Sn * An)), tuple([0] * (Sn * An - 1) + [m])]
    for _ in range(3):
        pats.append(tuple(rnd.choice([0, max(0, m - 1), m, m + 2]) for _ in range(Sn * An)))
    return [p for p in dict.fromkeys(pats) if any(c >= m for c in p)]


# ---------------------------------------------------------------- tier U: the count-limited model update over abstract arrays of any size

def h_observe_U():
    """RMAX._observe(state, action, reward, next_state, gamma) over ABSTRACT model arrays (z3 arrays of any shape and content), arbitrary integer indices,
    symbolic threshold m: below the threshold exactly (rewards[s,a] += r; counts[s,a] += 1; transitions[s,a,ns] += 1) and nothing else changes, value
    iteration is re-run (with the given discount) exactly when the count reaches m; at or above the threshold nothing changes and nothing is re-planned.
    Together with the initial counts 0 this is the induction step of  counts <= m  and of  "the model of a pair is frozen after m samples"."""
    import z3
    I, Rl = z3.IntSort(), z3.RealSort()

    class Arr:
        """a numpy array of unknown shape: total z3 array, scalar integer indices only"""
        def __init__(self, name, nd):
            self.nd = nd
            self.a = z3.Const(name, z3.ArraySort(*([I] * nd), Rl))
            S.cur().inputs[name] = self.a
            self.init = self.a

        def _ix(self, k):
            k = k if isinstance(k, tuple) else (k,)
            if len(k) != self.nd:
                raise S.Unsupported('partial indexing of an abstract array')
            return [z3.simplify(z3.ToInt(S.as_real(x).e)) if not isinstance(x, int) else z3.IntVal(x) for x in k]

        def __getitem__(self, k): return S.SymReal(z3.simplify(z3.Select(self.a, *self._ix(k))))
        def __setitem__(self, k, v): self.a = z3.Store(self.a, *self._ix(k), S.as_real(v).e)

        def at(self, arr, *ix): return S.SymReal(z3.Select(arr, *[i.e if hasattr(i, 'e') else i for i in ix]))
    learner = rm.RMAX.__new__(rm.RMAX)
    learner.m = S.integer('m', 1, None)
    learner.rewards, learner.s_a_counts, learner.transitions = Arr('rewards', 2), Arr('counts', 2), Arr('transitions', 3)
    calls = []
    learner._value_iteration = lambda gamma: calls.append((gamma, learner.rewards.a, learner.s_a_counts.a, learner.transitions.a))
    st, ac, ns = S.integer('state', 0, None), S.integer('action', 0, None), S.integer('next_state', 0, None)
    r, g = S.real('reward'), S.real('gamma')
    # counts are non-negative integers (initialised to 0, only ever incremented: part of this very contract): the cell in question holds ToReal(k0), k0 >= 0
    k0 = z3.Int('count_before')
    S.cur().inputs['count_before'] = k0
    S.assume(S.SymBool(k0 >= 0))
    cnt = learner.s_a_counts
    cnt.a = cnt.init = z3.Store(cnt.a, *cnt._ix((st, ac)), z3.ToReal(k0))
    c0 = learner.s_a_counts[st, ac]
    rm.RMAX._observe(learner, st, ac, r, ns, g)
    X, Y, Z = (z3.Int(n) for n in ('anyS', 'anyA', 'anyN'))
    for n in (X, Y, Z):
        S.cur().inputs[str(n)] = n
    R0, C0, T0 = learner.rewards.init, learner.s_a_counts.init, learner.transitions.init
    R1, C1, T1 = learner.rewards.a, learner.s_a_counts.a, learner.transitions.a
    sz, az, nz = (z3.simplify(z3.ToInt(S.as_real(x).e)) for x in (st, ac, ns))
    hit2 = z3.And(X == sz, Y == az)
    hit3 = z3.And(X == sz, Y == az, Z == nz)
    below = S.lt(c0, learner.m, tol=0)
    sel = lambda A, *ix: S.SymReal(z3.Select(A, *ix))
    S.check('U:_observe:below-the-threshold-the-sample-is-recorded-exactly-once;nothing-else-changes', S.Implies(below, S.And([
        S.eq(sel(R1, X, Y), S.If(S.SymBool(hit2), sel(R0, X, Y) + r, sel(R0, X, Y))),
        S.eq(sel(C1, X, Y), S.If(S.SymBool(hit2), sel(C0, X, Y) + 1, sel(C0, X, Y))),
        S.eq(sel(T1, X, Y, Z), S.If(S.SymBool(hit3), sel(T0, X, Y, Z) + 1, sel(T0, X, Y, Z)))])))
    S.check('U:_observe:at-or-above-the-threshold-the-model-is-frozen', S.Implies(S.Not(below), S.And([
        S.eq(sel(R1, X, Y), sel(R0, X, Y)), S.eq(sel(C1, X, Y), sel(C0, X, Y)), S.eq(sel(T1, X, Y, Z), sel(T0, X, Y, Z)), S.truth(len(calls) == 0)])))
    reached = S.And([below, S.eq(c0 + 1, learner.m)])
    S.check('U:_observe:re-plans-exactly-when-the-count-reaches-m,once,with-the-given-discount,on-the-updated-model', S.And([
        S.Iff(S.truth(len(calls) == 1), reached), S.truth(len(calls) <= 1),
        S.truth(all(c[0] is g and c[1] is R1 and c[2] is C1 and c[3] is T1 for c in calls))]))
    S.check('U:_observe:counts-never-exceed-the-threshold', S.Implies(S.le(c0, learner.m), S.le(sel(C1, sz, az), learner.m)))


def tasks(tier, seed):
    T = []
    for (Sn, An) in ((2, 2), (3, 2)):
        for m in ((1, 2) if tier == 'quick' else (1, 2, 3)):
            for pat in count_patterns(Sn, An, m):
                T.append(Task('_value_iteration/cut/S%dA%d/m%d/%s' % (Sn, An, m, ''.join(map(str, pat))), h_value_iteration, (Sn, An, pat, m), tier='B'))
    for sk in episodic():
        for m in (1, 2):
            for ep in (1, 2):
                if tier == 'quick' and ep == 2 and (m == 2 or sk.name == 'r3'):
                    continue
                if sk.name.endswith('falsy-actions') and (m, ep) != (1, 1):
                    continue
                T.append(Task('train_on/%s/m%d/ep%d' % (sk.name, m, ep), h_train, (sk, m, ep, (8 if (m == 1 and ep == 2) else 10) if sk.name == 'r3' else 12), tier='B', max_paths=8000, deadline_s=400))
    T.append(Task('U/_observe/abstract-model-arrays', h_observe_U, (), tier='U', note='arrays of any shape/content, symbolic threshold'))
    T.append(Task('rt/real-seeds', rt_real, (seed, 25 if tier == 'quick' else 200), tier='R', kind='rt'))
    return T


MANIFEST_ENTRY = dict(
    category='other',
    text=('Contracts on RMAX: _value_iteration verified with its `while True` loop cut by an invariant (any number of sweeps: on exit the empirical '
          'Bellman equation holds within the configured tolerance on sufficiently tried pairs, optimistic entries untouched, everything <= rmax/(1-gamma)); '
          'train_on/_training/_observe/_act/_create_q/_create_policy verified against that contract with a ghost experience log under a demonic generator; '
          'run-time tier with the un-stubbed learner and real seeds.'),
    note='Bounded shapes/thresholds/run lengths (tier B); termination of the inner loop not proved; discount generic rational.',
)
END_MANIFEST_ENTRY = True


SENTINELS = globals().get('SENTINELS', []) + [
    Sentinel('U:observe-keeps-counting-past-the-threshold', 'msdm.algorithms.rmax', "        if self.s_a_counts[state, action] < self.m:\n            self.rewards[state, action] += reward",
             "        if self.s_a_counts[state, action] <= self.m:\n            self.rewards[state, action] += reward", ['U/_observe/abstract-model-arrays']),
    Sentinel('U:observe-records-the-transition-from-the-wrong-state', 'msdm.algorithms.rmax', "            self.transitions[state, action, next_state] += 1", "            self.transitions[next_state, action, state] += 1",
             ['U/_observe/abstract-model-arrays']),
    Sentinel('U:observe-replans-one-sample-late', 'msdm.algorithms.rmax', "            if self.s_a_counts[state, action] == self.m:", "            if self.s_a_counts[state, action] > self.m:",
             ['U/_observe/abstract-model-arrays']),
    Sentinel('U:observe-overwrites-the-reward-sum', 'msdm.algorithms.rmax', "            self.rewards[state, action] += reward", "            self.rewards[state, action] = reward",
             ['U/_observe/abstract-model-arrays']),
]
