"""C07 -- POMDP belief updates follow Bayes' rule and the belief MDP is consistent."""
import math, itertools, random as _random
from fractions import Fraction
import numpy as np
from symrun import core as S
from symrun.driver import Task, Sentinel
from symrun.npf import sym_array
from specs import mdpspec as M
from specs import pomdpspec as P

import msdm.core.pomdp.pomdp as pp
import msdm.core.pomdp.tabularpomdp as tpp
import msdm.core.pomdp.beliefmdp as bm
import msdm.core.pomdp.policy as ppol
from msdm.core.pomdp.tabularpomdp import Belief
from msdm.core.distributions import DictDistribution

FILES = ['msdm/core/pomdp/pomdp.py', 'msdm/core/pomdp/tabularpomdp.py', 'msdm/core/pomdp/beliefmdp.py', 'msdm/core/pomdp/policy.py']
FUNCTIONS = ['msdm.core.pomdp.pomdp.PartiallyObservableMDP.state_estimator', 'msdm.core.pomdp.pomdp.PartiallyObservableMDP.predictive_observation_dist',
             'msdm.core.pomdp.tabularpomdp.TabularPOMDP.observation_list', 'msdm.core.pomdp.tabularpomdp.TabularPOMDP.observation_index',
             'msdm.core.pomdp.tabularpomdp.TabularPOMDP.observation_matrix', 'msdm.core.pomdp.tabularpomdp.TabularPOMDP.state_estimator_vec',
             'msdm.core.pomdp.tabularpomdp.TabularPOMDP.predictive_observation_vec',
             'msdm.core.pomdp.beliefmdp.BeliefMDP.initial_state_dist', 'msdm.core.pomdp.beliefmdp.BeliefMDP.is_absorbing', 'msdm.core.pomdp.beliefmdp.BeliefMDP.next_state_dist',
             'msdm.core.pomdp.beliefmdp.BeliefMDP.reward', 'msdm.core.pomdp.beliefmdp.BeliefMDP.actions',
             'msdm.core.pomdp.policy.ValueBasedTabularPOMDPPolicy.initial_agentstate', 'msdm.core.pomdp.policy.ValueBasedTabularPOMDPPolicy.next_agentstate']
ASSUMPTIONS = [
    "tier U (state_estimator, predictive_observation_dist): both/all three loops cut; states, observations are atoms (z3 integers), supports are index-addressed uninterpreted sequences of any length; the defaultdict(float) accumulator is a total z3 array read through an arbitrary focus key J (the clause holds for every J); dict comprehensions over the accumulator are element-wise, seen through J (keys of a dict are unique); the builtin sum over the accumulator's values is trusted (only total >= entry(J) >= 0 is used, which holds for non-negative inputs); predictive_observation_dist: the normalisation assert is assumed to pass (total mass 1 follows from normalised inputs; proved in tier B for the bounded family)",
    'floats are mathematical reals',
    'tier B: POMDP skeleton family of specs/pomdpspec.py ((S,A,O) up to (3,2,3), non-square, zero entries in T and O, absorbing states); belief '
    'components are ALL positive reals on the simplex for every zero-pattern of the belief (vertices included); transition / observation probabilities '
    'are generic rationals (two draws) or symbolic on the smallest skeleton',
]
LEMMAS = []
NOT_DECIDED = ['POMDPs beyond the skeleton family']
EXPLANATION = 'C07: state_estimator / predictive_observation_dist (dict and vectorised), observation matrix, BeliefMDP and the value-based agent-state update against Bayes rule.'


def beliefs(states):
    """zero patterns of the belief: every non-empty support"""
    n = len(states)
    for mask in range(1, 2 ** n):
        yield tuple(states[i] for i in range(n) if (mask >> i) & 1)


def make_belief(states, support, tag='b', mode='sym', nseed=0):
    if len(support) == 1:
        return {s: (1.0 if s in support else 0.0) for s in states}
    if mode == 'generic':
        ps = M._generic_simplex(_random.Random('belief/%s/%s' % (support, nseed)), len(support))
    else:
        ps = S.simplex(['%s_%s' % (tag, s) for s in support])
    d = dict(zip(support, ps))
    return {s: d.get(s, 0.0) for s in states}


def h_bayes(sk, numeric, bsupport, nseed, bmode='sym', mustfail=False):
    pomdp, v = P.make_pomdp(sk, numeric=numeric, nseed=nseed)
    skm = sk.m
    with P.facades():
        sl, al, ol = list(pomdp.state_list), list(pomdp.action_list), list(pomdp.observation_list)
        obs_all = {o for k, sup in sk.obs_supp.items() for o in sup}
        S.check('observation_list:all-observations-with-positive-probability,sorted,no-duplicates', S.truth(ol == sorted(obs_all)))
        S.check('observation_index:inverse-of-the-list', S.truth(all(pomdp.observation_index[o] == i for i, o in enumerate(ol))))
        om = pomdp.observation_matrix
        S.check('observation_matrix:cells-are-observation_dist-probabilities', S.And(
            [S.eq(om[i, j, k], P.spec_O(v, a, n, o)) for i, a in enumerate(al) for j, n in enumerate(sl) for k, o in enumerate(ol)] + [S.truth(om.shape == (len(al), len(sl), len(ol)))]))
        b = make_belief(sl, bsupport, mode=bmode, nseed=nseed)
        bd = DictDistribution(dict(b) if nseed % 2 == 0 else dict(reversed(list(b.items()))))      # the keys of a belief need not follow the state list
        if len({tuple(sorted(map(str, skm.actions.get(s_, ())))) for s_ in sl}) > 1:
            # state-dependent action sets: the dictionary belief lists only its support (the model has no next_state_dist for unavailable pairs)
            bd = DictDistribution({s_: p_ for s_, p_ in bd.items() if s_ in bsupport})
        bvec = sym_array([b[s] for s in sl]) if S.symbolic() else np.array([b[s] for s in sl], dtype=float)
        for ai, a in enumerate(al):
            if any(a not in skm.actions.get(s_, ()) for s_ in bsupport):
                continue          # state-dependent action sets: the filter is asked only about actions available on the belief's support
            pred = pomdp.predictive_observation_dist(bd, a)
            pvec = pomdp.predictive_observation_vec(bvec, ai)
            okp, okv = [], []
            Zs = {}
            for oi, o in enumerate(ol):
                tau = P.spec_tau(v, b, a, o)
                Z = S.Sum(tau.values())
                possible = any(not (isinstance(b[s], float) and b[s] == 0.0) and (s, a, n) in v.T and not _is0(v.T[(s, a, n)]) and not _is0(P.spec_O(v, a, n, o))
                               for s in sl for n in sl)
                Zs[o] = (Z, possible, tau)
                okp.append(S.eq(pred.prob(o), Z))
                okp.append(S.truth((o in pred.support) == possible))
                okv.append(S.eq(pvec[oi], Z))
            okp.append(S.eq(S.Sum(pred.values()), 1))
            S.check('predictive_observation_dist:exact-marginal,sums-to-1,positive-support', S.And(okp))
            S.check('predictive_observation_vec:agrees-with-the-dict-version', S.And(okv))
            for oi, o in enumerate(ol):
                Z, possible, tau = Zs[o]
                post = pomdp.state_estimator(bd, a, o)
                pv = pomdp.state_estimator_vec(bvec, ai, oi)
                if not possible:
                    S.check('state_estimator:empty-for-an-impossible-observation', S.truth(len(post) == 0))
                    S.check('state_estimator_vec:zero-vector-for-an-impossible-observation', S.And([S.eq(pv[i], 0) for i in range(len(sl))]))
                    continue
                ok = [S.eq(post.prob(n) * Z, tau[n]) for n in sl]
                ok.append(S.truth(set(post.support) == {n for n in sl if not _is0(tau[n])}))
                S.check('state_estimator:is-the-Bayes-posterior', S.And(ok))
                S.check('state_estimator:posterior-is-normalised', S.eq(S.Sum(post.values()) * Z, Z))
                S.check('state_estimator_vec:agrees-with-the-dict-version', S.And([S.eq(pv[i] * Z, tau[n]) for i, n in enumerate(sl)]))
        if mustfail:
            S.check('mustfail:posterior-equals-prior', S.And([S.eq(pomdp.state_estimator(bd, al[0], ol[0]).prob(n), b[n]) for n in sl]))


def _is0(x):
    if isinstance(x, S.SymReal):
        c = S.concrete_value(x)
        return c is not None and c == 0
    return float(x) == 0.0


def h_beliefmdp(sk, numeric, bsupport, nseed, bmode='sym'):
    pomdp, v = P.make_pomdp(sk, numeric=numeric, nseed=nseed)
    with P.facades():
        sl, al, ol = list(pomdp.state_list), list(pomdp.action_list), list(pomdp.observation_list)
        B = bm.BeliefMDP(pomdp)
        b = make_belief(sl, bsupport, mode=bmode, nseed=nseed)
        bel = Belief(tuple(sl), tuple(b[s] for s in sl))
        S.check('BeliefMDP.actions:the-action-list', S.truth(tuple(B.actions(bel)) == tuple(al)))
        S.check('BeliefMDP:discount-is-the-pomdp-discount', S.eq(B.discount_rate, pomdp.discount_rate))
        init = B.initial_state_dist()
        b0 = list(init.support)[0]
        S.check('BeliefMDP.initial_state_dist:point-mass-on-the-initial-belief', S.And(
            [S.truth(len(init) == 1 and tuple(b0.states) == tuple(sl)), S.eq(init.prob(b0), 1)] + [S.eq(p, v.p0.get(s, 0)) for s, p in zip(sl, b0.probs)]))
        S.check('BeliefMDP.is_absorbing:iff-all-mass-on-absorbing-states', S.truth(
            bool(B.is_absorbing(bel)) == all((s in sk.m.absorbing) for s in bsupport)))
        for a in al:
            nd = B.next_state_dist(bel, a)
            items = list(nd.items())
            ok = [S.eq(S.Sum(p for _, p in items), 1)]
            for nb, p in items:
                ok.append(S.truth(tuple(nb.states) == tuple(sl)))
                ok.append(S.eq(S.Sum(nb.probs), 1))
                ok.append(S.lt(0, p))
                ok += [S.le(0, x) for x in nb.probs]
            S.check('BeliefMDP.next_state_dist:normalised-distribution-over-normalised-beliefs', S.And(ok))
            mean = []
            for i, n in enumerate(sl):
                mean.append(S.eq(S.Sum(p * nb.probs[i] for nb, p in items), S.Sum(b[s] * M.spec_T(v, s, a, n) for s in sl)))
            S.check('BeliefMDP.next_state_dist:probability-weighted-mean-is-the-one-step-state-prediction', S.And(mean))
            # every successor belief is the Bayes posterior of some observation, with the summed probability of those observations
            okb = []
            for nb, p in items:
                cands = []
                for o in ol:
                    tau = P.spec_tau(v, b, a, o)
                    Z = S.Sum(tau.values())
                    same = S.And([S.eq(nb.probs[i] * Z, tau[n]) for i, n in enumerate(sl)] + [S.lt(0, Z)])
                    cands.append((same, Z))
                want = S.Sum(S.If(c, Z, 0) if S.symbolic() else (Z if c.concrete else 0) for c, Z in cands)
                # keys that are equal (up to float rounding in concrete replay) carry that mass together
                got = 0
                for nb2, p2 in items:
                    samekey = S.And([S.eq(x, y) for x, y in zip(nb.probs, nb2.probs)])
                    got = got + (S.If(samekey, p2, 0) if S.symbolic() else (p2 if samekey.concrete else 0))
                okb.append(S.eq(got, want))
            S.check('BeliefMDP.next_state_dist:successor-probability-is-the-mass-of-the-observations-that-lead-to-it', S.And(okb))
            r = B.reward(bel, a, None)
            S.check('BeliefMDP.reward:belief-expected-immediate-reward', S.eq(
                r, S.Sum(b[s] * S.Sum(v.T[(s, a, n)] * v.R[(s, a, n)] for n in sk.m.supp[(s, a)]) for s in sl)))

        class Pol(ppol.ValueBasedTabularPOMDPPolicy):
            def action_value(self, b, a):
                return 0
        pol = Pol(pomdp)
        ag0 = pol.initial_agentstate()
        S.check('initial_agentstate:the-initial-belief', S.And([S.truth(tuple(ag0.states) == tuple(sl))] + [S.eq(p, v.p0.get(s, 0)) for s, p in zip(sl, ag0.probs)]))
        for a in al:
            for o in ol:
                tau = P.spec_tau(v, b, a, o)
                Z = S.Sum(tau.values())
                nag = pol.next_agentstate(bel, a, o)
                S.check('next_agentstate:Bayes-posterior-on-the-state-list', S.And(
                    [S.truth(tuple(nag.states) == tuple(sl))] + [S.eq(x * Z, tau[n]) if not _is0(Z) else S.eq(x, 0) for x, n in zip(nag.probs, sl)]))


def h_state_estimator_U():
    """PartiallyObservableMDP.state_estimator for a belief of UNBOUNDED support over a model with UNBOUNDED next-state supports (both loops cut, nested):
    the accumulated weight of an arbitrary state J is  U(J) = sum_{i: b_i != 0} sum_{j: next_i_j = J} O(a, J, o) * b_i * T(s_i, a, next_i_j);
    the result is empty when the total is 0 and otherwise maps J to U(J)/total exactly when U(J) > 0.   `total` is what the builtin sum returns on the
    accumulator's values (trusted builtin; only total >= each non-negative entry is used)."""
    import z3, os, collections
    from symrun.absx import Atom, AbsMap, AbsValues, rsumN, fresh_atom, Opaque
    from symrun.cut import cut, CutSpec
    from symrun.patch import patched
    from symrun.driver import ROOT
    I, Rl = z3.IntSort(), z3.RealSort()
    bkey, bval = z3.Function('bkey', I, I), z3.Function('bval', I, Rl)
    nkey, nval, nn = z3.Function('nkey', I, I, I), z3.Function('nval', I, I, Rl), z3.Function('nn', I, I)        # indexed by (state, position)
    Op = z3.Function('Oprob', I, Rl)                                                                           # observation_dist(a, ns).prob(o) for the fixed a, o
    nb = z3.Int('nb')
    S.cur().inputs['nb'] = nb
    S.assume(S.SymBool(nb >= 0))
    J = fresh_atom('J')
    a, o = fresh_atom('a'), fresh_atom('o')
    inner = rsumN('IS', 2, lambda j, i, k: z3.If(nkey(bkey(i), j) == k, Op(k) * bval(i) * nval(bkey(i), j), z3.RealVal(0)))
    outer = rsumN('OS', 1, lambda i, k: z3.If(bval(i) == 0, z3.RealVal(0), inner(nn(bkey(i)), i, k)))
    TOT = S.real('total')

    class NDist:
        def __init__(self, s): self.s = s
        def items(self): return Opaque('next-state items', owner=self.s)

    class ODist:
        def __init__(self, ns): self.ns = ns
        def prob(self, x):
            if x is not o:
                raise S.Unsupported('unexpected observation queried')
            return S.SymReal(Op(self.ns.e))

    class Pomdp(pp.PartiallyObservableMDP):
        discount_rate = 1.0
        def next_state_dist(self, s, act):
            if act is not a:
                raise S.Unsupported('unexpected action')
            return NDist(s)
        def observation_dist(self, act, ns):
            if act is not a:
                raise S.Unsupported('unexpected action')
            return ODist(ns)
        def initial_state_dist(self): raise S.Unsupported('not used')
        def actions(self, s): raise S.Unsupported('not used')
        def reward(self, s, a_, ns): raise S.Unsupported('not used')
        def is_absorbing(self, s): raise S.Unsupported('not used')

    class B:
        def items(self): return Opaque('belief items', owner='belief')
    g0, g1 = {}, {}
    ph = {'outer': 'head', 'inner': 'head'}

    def fresh_map(L):
        return AbsMap(name='acc', focus=J)

    def inv0(L):
        m = L['ns_dist']
        if 'k' not in g0:
            return S.eq(m[J], 0)
        kk = g0['k'] + (1 if ph['outer'] == 'back' else 0)
        return S.eq(m[J], S.SymReal(outer(kk, J.e)))

    def havoc0(L):
        k = z3.Int('ghost_i')
        S.cur().inputs['ghost_i'] = k
        S.assume(S.SymBool(k >= 0))
        g0['k'] = k
        return dict(ns_dist=fresh_map(L), s=None, s_prob=None, ns=None, ns_prob=None, o_prob=None)

    def element0(L, it):
        S.assume(S.SymBool(g0['k'] < nb))
        return (Atom(bkey(g0['k'])), S.SymReal(bval(g0['k'])))

    def inv1(L):
        m = L['ns_dist']
        if 'k' not in g1:
            return S.eq(m[J], S.SymReal(outer(g0['k'], J.e)))                     # entry: nothing of this belief state added yet (IS(0,..) = 0)
        kk = g1['k'] + (1 if ph['inner'] == 'back' else 0)
        return S.eq(m[J], S.SymReal(outer(g0['k'], J.e) + inner(kk, g0['k'], J.e)))

    def havoc1(L):
        k = z3.Int('ghost_j')
        S.cur().inputs['ghost_j'] = k
        S.assume(S.SymBool(k >= 0))
        g1['k'] = k
        return dict(ns_dist=fresh_map(L), ns=None, ns_prob=None, o_prob=None)

    def element1(L, it):
        S.assume(S.SymBool(g1['k'] < nn(bkey(g0['k']))))
        ph['inner'] = 'back'
        return (Atom(nkey(bkey(g0['k']), g1['k'])), S.SymReal(nval(bkey(g0['k']), g1['k'])))

    def exhausted1(L):
        ph['outer'] = 'back'                                                       # after the inner loop the outer body reaches its back edge
        return S.SymBool(g1['k'] == nn(bkey(g0['k'])))
    spec0 = CutSpec(inv=inv0, havoc=havoc0, element=element0, exhausted=lambda L: S.SymBool(g0['k'] == nb),
                    iterable_ok=lambda L, v: isinstance(v, Opaque) and v.owner == 'belief')
    spec1 = CutSpec(inv=inv1, havoc=havoc1, element=element1, exhausted=exhausted1,
                    iterable_ok=lambda L, v: isinstance(v, Opaque) and v.owner is L['s'])
    fcut, text, info = cut(pp.PartiallyObservableMDP.state_estimator, {0: spec0, 1: spec1}, dump_dir=os.path.join(ROOT, 'evidence', 'extracted'))
    _cont = {'seen': False}
    real_back = fcut.__cut_runtime__.back_edge

    def back_edge(k, L):                      # the `continue` of a zero-probability belief state jumps to the OUTER back edge without entering the inner loop
        if k == 0:
            ph['outer'] = 'back'
        return real_back(k, L)
    fcut.__cut_runtime__.back_edge = back_edge

    def symsum(x, *rest):
        if isinstance(x, AbsValues):
            # trusted builtin: the sum of all accumulated weights; each weight is a sum of products of probabilities, hence >= 0 and <= the total
            S.assume(S.And([S.ge(TOT, x.m[J]), S.ge(x.m[J], 0)]))
            return TOT
        return sum(x, *rest)

    class DD:
        def __init__(self, d): self.d = d
    with patched((pp, dict(defaultdict=lambda f: AbsMap(default=0, focus=J), sum=symsum, DictDistribution=DD))):
        res = fcut(Pomdp(), B(), a, o)
    UJ = S.SymReal(outer(nb, J.e))
    d = res.d
    if bool(S.SymBool(TOT.e == 0)):
        S.check('U:state_estimator:empty-when-the-observation-is-impossible', S.truth(len(d) == 0))
    elif bool(S.SymBool(UJ.e > 0)):
        S.check('U:state_estimator:posterior-of-an-arbitrary-state-is-its-accumulated-weight-over-the-total', S.And(
            [S.truth(len(d) == 1 and next(iter(d)) is J)] + ([S.eq(d[J] * TOT, UJ)] if len(d) == 1 else [])))
    else:
        S.check('U:state_estimator:states-of-zero-weight-are-not-in-the-support', S.truth(len(d) == 0))


def h_predictive_U():
    """PartiallyObservableMDP.predictive_observation_dist for a belief / next-state supports / observation supports of UNBOUNDED size (three nested cut loops):
    the accumulated weight of an arbitrary observation J is W(J) = sum_i sum_j sum_{l: obs_l = J} b_i * T_ij * O_jl, and the result maps J to W(J) exactly when W(J) > 0.
    The normalisation assert is taken as given (total == 1: follows from normalised inputs, proved for the bounded family in tier B)."""
    import z3, os
    from symrun.absx import Atom, AbsMap, AbsValues, rsumN, fresh_atom, Opaque
    from symrun.cut import cut, CutSpec
    from symrun.patch import patched
    from symrun.driver import ROOT
    I, Rl = z3.IntSort(), z3.RealSort()
    bkey, bval = z3.Function('bkey', I, I), z3.Function('bval', I, Rl)
    nkey, nval, nn = z3.Function('nkey', I, I, I), z3.Function('nval', I, I, Rl), z3.Function('nn', I, I)
    okey, oval, no = z3.Function('okey', I, I, I), z3.Function('oval', I, I, Rl), z3.Function('no', I, I)          # indexed by (next state, position)
    nb = z3.Int('nb')
    S.cur().inputs['nb'] = nb
    S.assume(S.SymBool(nb >= 0))
    J, a = fresh_atom('J'), fresh_atom('a')
    ns_of = lambda i, j: nkey(bkey(i), j)
    L3 = rsumN('L3', 3, lambda l, i, j, k: z3.If(okey(ns_of(i, j), l) == k, bval(i) * nval(bkey(i), j) * oval(ns_of(i, j), l), z3.RealVal(0)))
    L2 = rsumN('L2', 2, lambda j, i, k: L3(no(ns_of(i, j)), i, j, k))
    L1 = rsumN('L1', 1, lambda i, k: L2(nn(bkey(i)), i, k))

    class NDist:
        def __init__(self, s): self.s = s
        def items(self): return Opaque('next-state items', owner=self.s)

    class ODist:
        def __init__(self, ns): self.ns = ns
        def items(self): return Opaque('observation items', owner=self.ns)

    class Pomdp(pp.PartiallyObservableMDP):
        discount_rate = 1.0
        def next_state_dist(self, s, act):
            if act is not a:
                raise S.Unsupported('unexpected action')
            return NDist(s)
        def observation_dist(self, act, ns):
            if act is not a:
                raise S.Unsupported('unexpected action')
            return ODist(ns)
        def initial_state_dist(self): raise S.Unsupported('not used')
        def actions(self, s): raise S.Unsupported('not used')
        def reward(self, s, a_, ns): raise S.Unsupported('not used')
        def is_absorbing(self, s): raise S.Unsupported('not used')

    class B:
        def items(self): return Opaque('belief items', owner='belief')
    g = {0: {}, 1: {}, 2: {}}
    back = {0: False, 1: False, 2: False}

    def gi(name):
        k = z3.Int(name)
        S.cur().inputs[name] = k
        S.assume(S.SymBool(k >= 0))
        return k

    def total(level):
        """value of the accumulator at J when control is at the head of loop `level` (ghost counters of the enclosing loops fixed)"""
        t = L1(g[0]['k'], J.e)
        if level >= 1:
            t = t + L2(g[1]['k'], g[0]['k'], J.e)
        if level >= 2:
            t = t + L3(g[2]['k'], g[0]['k'], g[1]['k'], J.e)
        return t

    def mk_inv(level):
        def inv(L):
            m = L['o_dist']
            if 'k' not in g[level]:           # first arrival at this loop on this path: enclosing heads' state, nothing of this loop done
                return S.eq(m[J], 0) if level == 0 else S.eq(m[J], S.SymReal(total(level - 1)))
            if back[level]:
                # one more completed iteration of this loop
                sub = dict(g[level])
                g[level]['k'] = g[level]['k'] + 1
                try:
                    return S.eq(m[J], S.SymReal(total(level)))
                finally:
                    g[level].update(sub)
            return S.eq(m[J], S.SymReal(total(level)))
        return inv

    def mk_havoc(level, names):
        def havoc(L):
            g[level]['k'] = gi('ghost_%d' % level)
            d = {n: None for n in names}
            d['o_dist'] = AbsMap(name='acc%d' % level, focus=J)
            return d
        return havoc

    def element0(L, it):
        S.assume(S.SymBool(g[0]['k'] < nb))
        return (Atom(bkey(g[0]['k'])), S.SymReal(bval(g[0]['k'])))

    def element1(L, it):
        S.assume(S.SymBool(g[1]['k'] < nn(bkey(g[0]['k']))))
        return (Atom(ns_of(g[0]['k'], g[1]['k'])), S.SymReal(nval(bkey(g[0]['k']), g[1]['k'])))

    def element2(L, it):
        S.assume(S.SymBool(g[2]['k'] < no(ns_of(g[0]['k'], g[1]['k']))))
        back[2] = True
        nsx = ns_of(g[0]['k'], g[1]['k'])
        return (Atom(okey(nsx, g[2]['k'])), S.SymReal(oval(nsx, g[2]['k'])))

    def ex2(L):
        back[1] = True                     # inner loop finished: the enclosing body reaches ITS back edge next
        return S.SymBool(g[2]['k'] == no(ns_of(g[0]['k'], g[1]['k'])))

    def ex1(L):
        back[0] = True
        return S.SymBool(g[1]['k'] == nn(bkey(g[0]['k'])))
    specs = {
        0: CutSpec(inv=mk_inv(0), havoc=mk_havoc(0, ['s', 's_prob', 'ns', 'ns_prob', 'o', 'o_prob']), element=element0, exhausted=lambda L: S.SymBool(g[0]['k'] == nb),
                   iterable_ok=lambda L, v: isinstance(v, Opaque) and v.owner == 'belief'),
        1: CutSpec(inv=mk_inv(1), havoc=mk_havoc(1, ['ns', 'ns_prob', 'o', 'o_prob']), element=element1, exhausted=ex1,
                   iterable_ok=lambda L, v: isinstance(v, Opaque) and v.owner is L['s']),
        2: CutSpec(inv=mk_inv(2), havoc=mk_havoc(2, ['o', 'o_prob']), element=element2, exhausted=ex2,
                   iterable_ok=lambda L, v: isinstance(v, Opaque) and v.owner is L['ns']),
    }
    fcut, text, info = cut(pp.PartiallyObservableMDP.predictive_observation_dist, specs, dump_dir=os.path.join(ROOT, 'evidence', 'extracted'))

    def symsum(x, *rest):
        if isinstance(x, AbsValues):
            return S.SymReal(z3.RealVal(1))           # normalised inputs: the total predictive mass is 1 (assumption, see docstring)
        return sum(x, *rest)

    class DD:
        def __init__(self, d): self.d = d

    class NPs:
        @staticmethod
        def isclose(x, y): return bool(S.eq(x, y).exact) if S.symbolic() else abs(x - y) < 1e-8
    with patched((pp, dict(defaultdict=lambda f: AbsMap(default=0, focus=J), sum=symsum, DictDistribution=DD, np=NPs))):
        res = fcut(Pomdp(), B(), a)
    W = S.SymReal(L1(nb, J.e))
    d = res.d
    if bool(S.SymBool(W.e > 0)):
        S.check('U:predictive_observation_dist:probability-of-an-arbitrary-observation-is-its-accumulated-weight', S.And(
            [S.truth(len(d) == 1 and next(iter(d)) is J)] + ([S.eq(d[J], W)] if len(d) == 1 else [])))
    else:
        S.check('U:predictive_observation_dist:observations-of-zero-weight-are-not-in-the-support', S.truth(len(d) == 0))


def rt_random(seed, n):
    rnd = _random.Random(seed)
    out = []
    fam = P.family('thorough', seed)
    for k in range(n):
        sk = fam[k % len(fam)]
        sup = rnd.choice(list(beliefs(sorted(sk.m.states))))
        for h in (h_bayes, h_beliefmdp):
            rp = S.run_concrete(h, (sk, 'sym', sup, k), {}, rng=rnd)
            for c in rp['checks']:
                if c['name'].startswith('mustfail'):
                    continue
                out.append(dict(name='rt:' + c['name'], ok=c['status'] == 'proved', detail=str(c.get('detail'))[:600],
                                witness=dict(skel=sk.name, belief_support=repr(sup), inputs=rp.get('inputs'))))
    return out


def tasks(tier, seed):
    T = []
    for sk in P.family(tier, seed):
        sl = sorted(sk.m.states)
        small = len(sl) == 2
        for sup in beliefs(sl):
            for ns in ([0, 1, 2] if tier == 'thorough' else [0, 1]):
                nm = '%s/b=%s/g%d' % (sk.name, '+'.join(map(str, sup)), ns)
                mf = (len(sup) == len(sl) and ns == 0)
                T.append(Task('bayes/generic-belief/' + nm, h_bayes, (sk, 'generic', sup, ns, 'generic', mf), tier='B',
                              expect_fail=('mustfail:posterior-equals-prior',) if mf else (), vc_timeout_ms=20000,
                              note='generic rational T, O and belief point on this face of the simplex'))
                T.append(Task('beliefmdp/generic-belief/' + nm, h_beliefmdp, (sk, 'generic', sup, ns, 'generic'), tier='B', vc_timeout_ms=20000))
            if small:
                nm = '%s/b=%s' % (sk.name, '+'.join(map(str, sup)))
                T.append(Task('bayes/all-beliefs/' + nm, h_bayes, (sk, 'generic', sup, 0, 'sym'), tier='B', vc_timeout_ms=20000,
                              note='ALL beliefs on this face of the simplex (symbolic), generic rational T and O'))
                T.append(Task('beliefmdp/all-beliefs/' + nm, h_beliefmdp, (sk, 'generic', sup, 0, 'sym'), tier='B', vc_timeout_ms=20000))
                if sk.name == 'p212':
                    T.append(Task('bayes/all-symbolic/' + nm, h_bayes, (sk, 'sym', sup, 0, 'sym'), tier='B', vc_timeout_ms=20000,
                                  note='every probability symbolic'))
    for sk in P.family_state_dependent_actions():
        for sup in (('l',), ('r',)):
            for ns in (0, 1):
                T.append(Task('bayes/state-dependent-actions/%s/b=%s/g%d' % (sk.name, '+'.join(sup), ns), h_bayes, (sk, 'generic', sup, ns, 'generic'), tier='B', vc_timeout_ms=20000))
    T.append(Task('U/state_estimator/abstract-belief-and-model', h_state_estimator_U, (), tier='U', note='both loops cut; unbounded supports', vc_timeout_ms=30000))
    T.append(Task('U/predictive_observation_dist/abstract-belief-and-model', h_predictive_U, (), tier='U', note='three nested loops cut; unbounded supports', vc_timeout_ms=30000))
    T.append(Task('rt/random', rt_random, (seed, 20 if tier == 'quick' else 200), tier='R', kind='rt'))
    return T


MANIFEST_ENTRY = dict(
    category='other',
    text=('Contracts on the dict and vectorised Bayes filters, the predictive observation distribution, the observation matrix, every BeliefMDP method '
          'and the value-based agent-state update. For each POMDP skeleton and every zero-pattern of the belief, z3 proves the clauses for ALL beliefs '
          'on that face of the simplex (transition/observation probabilities generic rationals; fully symbolic on the smallest skeleton).'),
    note='Bounded skeleton family (tier B); floats as reals. Tier U: state_estimator and predictive_observation_dist with all loops cut, supports of any size (Bayes weights by recursive ghost sums).',
)
END_MANIFEST_ENTRY = True


SENTINELS = globals().get('SENTINELS', []) + [
    Sentinel('U:state_estimator-overwrites-instead-of-accumulating', 'msdm.core.pomdp.pomdp', "                ns_dist[ns] += o_prob*s_prob*ns_prob", "                ns_dist[ns] = o_prob*s_prob*ns_prob",
             ['U/state_estimator/abstract-belief-and-model']),
    Sentinel('U:state_estimator-ignores-the-observation-likelihood', 'msdm.core.pomdp.pomdp', "                ns_dist[ns] += o_prob*s_prob*ns_prob", "                ns_dist[ns] += s_prob*ns_prob",
             ['U/state_estimator/abstract-belief-and-model']),
    Sentinel('U:state_estimator-returns-unnormalised-weights', 'msdm.core.pomdp.pomdp', "return DictDistribution({ns: p/tot for ns, p in ns_dist.items() if p > 0.0})",
             "return DictDistribution({ns: p for ns, p in ns_dist.items() if p > 0.0})", ['U/state_estimator/abstract-belief-and-model']),
    Sentinel('U:state_estimator-keeps-zero-weight-states', 'msdm.core.pomdp.pomdp', "return DictDistribution({ns: p/tot for ns, p in ns_dist.items() if p > 0.0})",
             "return DictDistribution({ns: p/tot for ns, p in ns_dist.items()})", ['U/state_estimator/abstract-belief-and-model']),
    Sentinel('U:state_estimator-skips-the-first-successor-of-every-state', 'msdm.core.pomdp.pomdp', "            for ns, ns_prob in self.next_state_dist(s, a).items():\n                o_prob = self.observation_dist(a, ns).prob(o)",
             "            for ns, ns_prob in list(self.next_state_dist(s, a).items())[1:]:\n                o_prob = self.observation_dist(a, ns).prob(o)", ['U/state_estimator/abstract-belief-and-model']),
]


SENTINELS = SENTINELS + [
    Sentinel('U:predictive-forgets-the-transition-probability', 'msdm.core.pomdp.pomdp', "                    o_dist[o] += s_prob*ns_prob*o_prob", "                    o_dist[o] += s_prob*o_prob",
             ['U/predictive_observation_dist/abstract-belief-and-model']),
    Sentinel('U:predictive-overwrites-instead-of-accumulating', 'msdm.core.pomdp.pomdp', "                    o_dist[o] += s_prob*ns_prob*o_prob", "                    o_dist[o] = s_prob*ns_prob*o_prob",
             ['U/predictive_observation_dist/abstract-belief-and-model']),
    Sentinel('U:predictive-observes-the-previous-state', 'msdm.core.pomdp.pomdp', "                for o, o_prob in self.observation_dist(a, ns).items():", "                for o, o_prob in self.observation_dist(a, s).items():",
             ['U/predictive_observation_dist/abstract-belief-and-model']),
    Sentinel('U:predictive-keeps-zero-weight-observations', 'msdm.core.pomdp.pomdp', "return DictDistribution({o: p for o, p in o_dist.items() if p > 0.0})", "return DictDistribution({o: p for o, p in o_dist.items()})",
             ['U/predictive_observation_dist/abstract-belief-and-model']),
]
