"""C18 -- grid-game transitions are normalised and respect the physical constraints; factor-table algebra."""
import math, itertools, random as _random, contextlib, json, copy
from fractions import Fraction
import numpy as np
from symrun import core as S
from symrun.driver import Task, Sentinel
from symrun.patch import patched
from symrun.npf import NumpyFacade, SymArray, has_sym, _wrap

import msdm.core.distributions.discretefactortable as dft
import msdm.domains.gridgame.tabulargridgame as tgg
import msdm.core.stochasticgame.tabularstochasticgame as tsg
from msdm.core.distributions import DiscreteFactorTable as Pr
from msdm.core.utils.dictutils import dict_match, dict_merge
from msdm.core.assignment.assignmentset import AssignmentSet
from msdm.core.assignment.assignmentmap import AssignmentMap

FILES = ['msdm/domains/gridgame/tabulargridgame.py', 'msdm/core/distributions/discretefactortable.py', 'msdm/core/stochasticgame/tabularstochasticgame.py',
         'msdm/core/assignment/assignmentset.py', 'msdm/core/utils/dictutils.py']
FUNCTIONS = ['msdm.core.distributions.discretefactortable.DiscreteFactorTable.' + f for f in
             ('__init__', 'prob', 'items', 'product', 'mix', 'marginalize', '__mul__', '__rmul__', '__truediv__', 'normalize', 'Z', 'logit', 'score', '__and__', '__or__')] + \
    ['msdm.core.utils.dictutils.dict_match', 'msdm.core.utils.dictutils.dict_merge',
     'msdm.core.assignment.assignmentset.AssignmentSet.add', 'msdm.core.assignment.assignmentset.AssignmentSet.__contains__', 'msdm.core.assignment.assignmentset.AssignmentSet.pop',
     'msdm.domains.gridgame.tabulargridgame.TabularGridGame.__init__', 'msdm.domains.gridgame.tabulargridgame.TabularGridGame.next_state_dist',
     'msdm.domains.gridgame.tabulargridgame.TabularGridGame.is_absorbing', 'msdm.domains.gridgame.tabulargridgame.TabularGridGame.is_terminal',
     'msdm.domains.gridgame.tabulargridgame.TabularGridGame.joint_rewards', 'msdm.domains.gridgame.tabulargridgame.TabularGridGame.joint_actions',
     'msdm.domains.gridgame.tabulargridgame.TabularGridGame.initial_state_dist', 'msdm.core.stochasticgame.tabularstochasticgame.TabularStochasticGame.reachable_states']
ASSUMPTIONS = [
    'factor tables work in log space: log x is carried as x (LogVal), so log(xy)=log x+log y, exp(log x)=x and softmax/logsumexp are exact rational expressions; no other analytic fact is used',
    'tier B: factor tables with <=3 rows each (shared / disjoint / partially overlapping variables, nested dict values, zero rows), all weights symbolic; grid-game layouts: the '
    'enumerated family of props/C18.py (1x3, 1x4, 2x2, 2x3 boards, two agents, private and shared goals, obstacle, wall, fence), every reachable non-terminal state x all 25 joint actions, '
    'fence success probability symbolic on (0,1) and the end points 0, 1',
    'collision_prob other than None raises by design (outside the property)',
    'floats are mathematical reals',
]
LEMMAS = []
NOT_DECIDED = ['boards beyond the bound']
EXPLANATION = 'C18: DiscreteFactorTable algebra (natural join product, mixture, marginalisation, scaling) and TabularGridGame.next_state_dist physical constraints.'


class NPLog(NumpyFacade):
    """np for the log-space factor-table module: log/exp of symbolic weights are LogVal conversions"""

    def log(self, a):
        """log x is carried as LogVal(x) for EVERY positive x (also concrete ones), so that no float log/exp rounding enters; log 0 = -inf"""
        if isinstance(a, (list, tuple, np.ndarray)):
            xs = list(a)
            out = np.empty(len(xs), dtype=object)
            for i, x in enumerate(xs):
                out[i] = self.log(x)
            return out
        if isinstance(a, S.LogVal):
            raise S.Unsupported('log of a log')
        if isinstance(a, S.SymReal):
            c = S.concrete_value(a)
            if c is not None and c == 0:
                return -math.inf
            return S.LogVal(a)
        if isinstance(a, (bool, np.bool_)):
            a = int(a)
        if a == 0:
            return -math.inf
        return S.LogVal(S.const(a) if not isinstance(a, float) else S.SymReal.of(a))

    def exp(self, a):
        if isinstance(a, S.LogVal):
            return a.x
        if isinstance(a, S.SymReal):
            raise S.Unsupported('exp of a symbolic real in the factor-table module')
        return np.exp(a)

    def max(self, a, *args, **kw):
        xs = list(a) if isinstance(a, (list, tuple, np.ndarray)) else a
        if isinstance(xs, list) and any(isinstance(x, S.LogVal) for x in xs):
            return S.LogVal(S.Max([_x(x) for x in xs]))
        return NumpyFacade.max(self, a, *args, **kw)

    def sum(self, a, *args, **kw):
        xs = list(a) if isinstance(a, (list, tuple, np.ndarray)) else a
        if isinstance(xs, list) and any(isinstance(x, S.LogVal) for x in xs):
            t = xs[0]
            for x in xs[1:]:
                t = t + x
            return t
        return NumpyFacade.sum(self, a, *args, **kw)


def _x(l):
    """logit -> weight"""
    if isinstance(l, S.LogVal):
        return l.x
    if isinstance(l, (int, float)) and l == 0:
        return 1
    if isinstance(l, S.SymReal):
        raise S.Unsupported('symbolic real used as a logit')
    return 0.0 if l == -math.inf else math.exp(l)


def softmax_f(scores, *a, **k):
    xs = [_x(l) for l in scores]
    if not any(isinstance(x, (S.SymReal, S.LogVal)) for x in list(xs) + list(scores)):
        from scipy.special import softmax
        return softmax(np.asarray(scores, dtype=float))
    tot = S.Sum(xs)
    out = np.empty(len(xs), dtype=object)
    for i, x in enumerate(xs):
        out[i] = x / tot
    return out


def logsumexp_f(scores, *a, **k):
    xs = [_x(l) for l in scores]
    if not any(isinstance(x, (S.SymReal, S.LogVal)) for x in list(xs) + list(scores)):
        from scipy.special import logsumexp
        return logsumexp(np.asarray(scores, dtype=float))
    return S.LogVal(S.Sum(xs))


@contextlib.contextmanager
def facades():
    if not S.symbolic():
        yield
        return
    with patched((dft, dict(np=NPLog(), softmax=softmax_f, logsumexp=logsumexp_f))):
        yield


# ---------------------------------------------------------------------------------------------------
# factor tables
# ---------------------------------------------------------------------------------------------------
CASES = {
    'disjoint': ([{'a': 0}, {'a': 1}], [{'b': 'x'}, {'b': 'y'}, {'b': 'z'}]),
    'shared': ([{'a': 0, 'b': 'x'}, {'a': 1, 'b': 'x'}, {'a': 1, 'b': 'y'}], [{'b': 'x'}, {'b': 'y'}]),
    'overlap-nested': ([{'ag': {'x': 0, 'y': 0}, 'c': 1}, {'ag': {'x': 1, 'y': 0}, 'c': 1}], [{'ag': {'x': 0, 'y': 0}, 'd': 2}, {'ag': {'x': 1, 'y': 0}, 'd': 3}, {'ag': {'x': 1, 'y': 1}, 'd': 3}]),
    'same-vars': ([{'a': 0}, {'a': 1}], [{'a': 1}, {'a': 0}]),
    'same-vars-partial': ([{'a': 0}, {'a': 1}], [{'a': 1}, {'a': 2}]),
    'single': ([{'a': 0}], [{'a': 0}]),
}


GEN = [Fraction(3, 7), Fraction(5, 2), Fraction(1, 9), Fraction(11, 4)]


def weights(tag, n, zero_mask, generic=False):
    return [0.0 if (zero_mask >> i) & 1 else (S.const(GEN[i]) if generic else S.real('%s_%d' % (tag, i), 0, None, lo_strict=True)) for i in range(n)]


def h_tables(case, za, zb, generic_b=True):
    ra, rb = copy.deepcopy(CASES[case])
    wa, wb = weights('wa', len(ra), za), weights('wb', len(rb), zb, generic=generic_b)
    if all(isinstance(w, float) for w in wa) or all(isinstance(w, float) for w in wb):
        raise S.PathInfeasible()
    with facades():
        A, B = Pr(ra, probs=wa), Pr(rb, probs=wb)
        ta, tb = S.Sum(wa), S.Sum(wb)
        # constructor: probabilities as given (the table does not renormalise `probs`), items() lists the positive rows
        S.check('table:prob-of-a-row-is-its-weight;unknown-rows-0', S.And(
            [S.eq(A.prob(r), w) for r, w in zip(ra, wa)] + [S.eq(A.prob({'zz': 1}), 0)] +
            [S.truth([e for e, _ in A.items()] == [r for r, w in zip(ra, wa) if not isinstance(w, float)])]))
        # product = normalised natural join with multiplied weights
        P_ = A & B
        join = []
        for r, w in zip(ra, wa):
            for q, u in zip(rb, wb):
                if dict_match(r, q):
                    m = dict_merge(r, q)
                    if m not in [j for j, _ in join]:
                        join.append((m, w * u))
        pos = [(m, x) for m, x in join if not _is0(x)]
        Zj = S.Sum(x for _, x in pos)
        ok = [S.truth(sorted(map(_key, P_.support)) == sorted(_key(m) for m, _ in pos))]
        for m, x in pos:
            ok.append(S.eq(P_.prob(m) * Zj, x))
        if pos:
            ok.append(S.eq(S.Sum(P_.prob(m) for m, _ in pos), 1))
        S.check('product:normalised-natural-join-of-the-rows-with-multiplied-weights', S.And(ok))
        if case == 'disjoint':
            S.check('product:independent-tables-give-the-product-distribution', S.And(
                [S.eq(P_.prob(dict_merge(r, q)) * ta * tb, w * u) for r, w in zip(ra, wa) for q, u in zip(rb, wb)]))
        # weighted mixture over the same variables adds the weights row by row
        if case.startswith('same-vars') or case == 'single':
            x, y = S.real('x', 0, None, lo_strict=True), S.real('y', 0, None, lo_strict=True)
            Mx = A * x | B * y
            rows = []
            for r in ra + rb:
                if r not in rows:
                    rows.append(r)
            want = {_key(r): x * (wa[ra.index(r)] if r in ra else 0) + y * (wb[rb.index(r)] if r in rb else 0) for r in rows}
            tot = S.Sum(want.values())
            S.check('mix:weighted-mixture-adds-the-weights-row-by-row', S.And([S.eq(Mx.prob(r) * tot, want[_key(r)]) for r in rows]))
        # marginalisation sums the weights of merged rows
        var = list(ra[0].keys())[0]
        rows_before = copy.deepcopy(ra)
        Mg = A[var]
        S.check('marginalize:does-not-modify-the-rows-of-the-table', S.truth(list(A.support) == rows_before and ra == rows_before))
        vals = []
        for r in ra:
            if r[var] not in vals:
                vals.append(r[var])
        S.check('marginalize:sums-the-weights-of-merged-rows', S.And(
            [S.eq(Mg.prob(vv) * ta, S.Sum(w for r, w in zip(ra, wa) if r[var] == vv)) for vv in vals]))
        k = S.real('k', 0, None, lo_strict=True)
        S.check('scale/normalize:Z-is-the-total-weight;normalize-divides-by-it', S.And(
            [S.eq((A * k).Z, k * ta), S.eq((A / k).Z * k, ta)] + [S.eq(A.normalize().prob(r) * ta, w) for r, w in zip(ra, wa)]))


def _is0(x):
    if isinstance(x, S.SymReal):
        c = S.concrete_value(x)
        return c is not None and c == 0
    return float(x) == 0.0


def _key(d):
    return json.dumps(d, sort_keys=True, default=str)


def h_assignment():
    s = AssignmentSet([{'a': 1, 'b': {'c': 2}}, 'plain'])
    ok = [{'b': {'c': 2}, 'a': 1} in s, 'plain' in s, {'a': 2} not in s, len(s) == 2]
    s.add({'a': 1, 'b': {'c': 2}})
    ok.append(len(s) == 2)
    s.add({'a': 2})
    ok.append(len(s) == 3 and {'a': 2} in s)
    got = []
    while len(s):
        got.append(s.pop())
    ok.append(sorted(map(_key, got)) == sorted(map(_key, [{'a': 1, 'b': {'c': 2}}, 'plain', {'a': 2}])))
    S.check('AssignmentSet:set-semantics-over-JSON-encoded-keys(add/contains/len/pop)', S.truth(all(ok)))
    S.check('dict_match/dict_merge:nested', S.truth(
        dict_match({'a': {'x': 1}, 'b': 2}, {'a': {'x': 1}, 'c': 3}) and not dict_match({'a': {'x': 1}}, {'a': {'x': 2}}) and
        dict_merge({'a': {'x': 1}, 'b': 2}, {'a': {'y': 5}, 'c': 3}) == {'a': {'x': 1, 'y': 5}, 'b': 2, 'c': 3}))


# ---------------------------------------------------------------------------------------------------
# grid game
# ---------------------------------------------------------------------------------------------------
def board_family(tier, seed):
    feats = ['.', 'G0', 'G1', 'G', '#']
    out = []
    for a, b in itertools.product(feats, repeat=2):
        out.append('A0 %s %s A1' % (a, b))                      # 1x4, agents at the ends
    for a in feats:
        out.append('A0 %s A1' % a)
    for a, b in itertools.product(['.', 'G0', 'G', '#'], repeat=2):
        out.append('A0 %s\n%s A1' % (a, b))                      # 2x2
    out += ['A0 G0.G1 A1', 'A0 G1.G0 A1', 'A0 G.G1 A1', 'A0 G0.G A1', 'A0 G0.G1 . A1']      # one cell that is a goal of BOTH agents (each agent must be recognised on it)
    out += ['A0 ].G1 A1\nG0 . .', 'A0.} . G1\n. A1 G0', 'A0 ~ G\nA1.^ . .', '.  A0.u G1\nG0 A1 .', 'A0.G1 A1.G0 .', 'A0 A1.G0.G1 G']
    if tier == 'thorough':
        rnd = _random.Random(seed)
        for _ in range(25):
            cells = ['.'] * 6
            pos = rnd.sample(range(6), 4)
            cells[pos[0]], cells[pos[1]] = 'A0', 'A1'
            cells[pos[2]] = rnd.choice(feats + ['{', '}', '[', ']'])
            cells[pos[3]] = rnd.choice(feats)
            out.append(' '.join(cells[:3]) + '\n' + ' '.join(cells[3:]))
    return list(dict.fromkeys(out))


def loc(a):
    return (a['x'], a['y'])


def h_gridgame(board, pmode):
    p = {'open': None, 'zero': 0.0, 'one': 1.0}[pmode]
    if p is None:
        p = S.real('fence_success_prob', 0, 1, lo_strict=True, hi_strict=True)
    with facades():
        g = tgg.TabularGridGame(board, fence_success_prob=p)
        names = list(g.agent_names)
        goals = {loc(x) for x in g.goals}
        own = {n: {loc(x) for x in g.goals if n in x['owners']} for n in names}
        obstacles = {loc(o) for o in g.obstacles}
        walls = {(loc(w['start']), loc(w['end'])) for w in g.walls}
        states = list(g.reachable_states())
        acts = [{'x': 0, 'y': 0}, {'x': 1, 'y': 0}, {'x': -1, 'y': 0}, {'x': 0, 'y': 1}, {'x': 0, 'y': -1}]
        S.check('joint_actions:five-moves-per-agent', S.truth(all(list(v) == acts for v in g.joint_actions(states[0]).values()) and set(g.joint_actions(states[0])) == set(names)))
        okn, okp, okt = [], [], []
        for s in states:
            if g.is_terminal(s):
                d = g.next_state_dist(s, {n: acts[0] for n in names})
                okt.append(S.And(S.eq(d.prob(tgg.TERMINALSTATE), 1), S.truth(all(v == 0 for v in g.joint_rewards(s, {n: acts[1] for n in names}, s).values()))))
                continue
            on_own_goal = any(loc(s[n]) in own[n] for n in names)
            okt.append(S.truth(bool(g.is_absorbing(s)) == on_own_goal))
            for ja_t in itertools.product(acts, repeat=len(names)):
                ja = dict(zip(names, ja_t))
                d = g.next_state_dist(s, ja)
                items = [(ns, d.prob(ns)) for ns in d.support]
                okn.append(S.eq(S.Sum(pr for _, pr in items), 1))
                if on_own_goal:
                    okt.append(S.eq(d.prob(tgg.TERMINALSTATE), 1))
                    continue
                for ns, pr in items:
                    bad = False
                    if g.is_terminal(ns):
                        bad = True
                    else:
                        for n in names:
                            (x0, y0), (x1, y1) = loc(s[n]), loc(ns[n])
                            if abs(x1 - x0) + abs(y1 - y0) > 1 or not (0 <= x1 < g.width and 0 <= y1 < g.height):
                                bad = True
                            if (x1, y1) in obstacles and (x1, y1) != (x0, y0):
                                bad = True
                            if ((x0, y0), (x1, y1)) in walls:
                                bad = True
                            if (x1, y1) != (x0, y0) and (x1 - x0, y1 - y0) != (ja[n]['x'], ja[n]['y']):
                                bad = True
                        for n0, n1 in itertools.combinations(names, 2):
                            if loc(ns[n0]) == loc(ns[n1]) and loc(ns[n0]) not in goals:
                                bad = True
                            if loc(ns[n0]) == loc(s[n1]) and loc(ns[n1]) == loc(s[n0]) and loc(s[n0]) != loc(s[n1]):
                                bad = True
                    if bad:
                        okp.append(S.eq(pr, 0))
                    else:
                        okp.append(S.le(0, pr))
        S.check('next_state_dist:sums-to-1', S.And(okn), detail=board)
        S.check('next_state_dist:no-mass-on-shared-non-goal-cells,swaps,obstacles,blocked-walls,off-grid,moves>1-cell-or-not-as-commanded', S.And(okp), detail=board)
        S.check('own-goal-states-lead-to-the-terminal-state,which-is-absorbing-and-pays-nothing', S.And(okt), detail=board)
        d0 = g.initial_state_dist()
        S.check('initial_state_dist:point-mass-on-the-parsed-agent-positions', S.And([S.eq(S.Sum(d0.prob(x) for x in d0.support), 1), S.truth(len(d0.support) == 1)]))


def h_fence(pmode):
    """a fence crossing succeeds with the configured probability (up to the code's fixed epsilon mass)"""
    p = {'open': None, 'zero': 0.0, 'one': 1.0}[pmode]
    if p is None:
        p = S.real('fence_success_prob', 0, 1, lo_strict=True, hi_strict=True)
    with facades():
        g = tgg.TabularGridGame('A0.} . .\n. . A1', fence_success_prob=p)
        s = g.initial_state_dist().support[0]
        d = g.next_state_dist(s, {'A0': {'x': 1, 'y': 0}, 'A1': {'x': 0, 'y': 0}})
        crossed = S.Sum(d.prob(ns) for ns in d.support if loc(ns['A0']) == (1, 1))
        eps = S.const(Fraction(1, 10000))
        S.check('fence:crossing-succeeds-with-the-configured-probability(up-to-epsilon)', S.And(S.le(crossed, p), S.le(p * (1 - eps), crossed)))
        d2 = g.next_state_dist(s, {'A0': {'x': 0, 'y': -1}, 'A1': {'x': 0, 'y': 0}})
        S.check('fence:other-directions-are-not-affected', S.le(1 - eps, S.Sum(d2.prob(ns) for ns in d2.support if loc(ns['A0']) == (0, 0))))


def chunks(xs, k):
    return [xs[i:i + k] for i in range(0, len(xs), k)]


def tasks(tier, seed):
    T = []
    for case, (ra, rb) in CASES.items():
        for za in range(2 ** len(ra) - 1):
            for zb in range(2 ** len(rb) - 1):
                if tier == 'quick' and (za and zb) and case not in ('shared', 'same-vars'):
                    continue
                T.append(Task('tables/%s/z%d-%d' % (case, za, zb), h_tables, (case, za, zb), tier='B', vc_timeout_ms=120000, deadline_s=900))
    T.append(Task('assignment', h_assignment, (), tier='B'))
    boards = board_family(tier, seed)
    for bi, b in enumerate(boards):
        has_fence = any(c in b for c in '{}~u')
        for pm in (('open', 'zero', 'one') if has_fence else ('open',)):
            T.append(Task('gridgame/%02d/%s/%s' % (bi, b.replace('\n', '|').replace(' ', '_'), pm), h_gridgame, (b, pm), tier='B', deadline_s=500))
    for pm in ('open', 'zero', 'one'):
        T.append(Task('fence/%s' % pm, h_fence, (pm,), tier='B'))
    return T


MANIFEST_ENTRY = dict(
    category='other',
    text=('Contracts on DiscreteFactorTable (product = normalised natural join with multiplied weights, independent tables give the product distribution, '
          'weighted mixture adds weights row by row, marginalisation, scaling/normalisation) proved for ALL row weights incl. zero rows via the LogVal '
          'abstraction; and on TabularGridGame.next_state_dist: for every board of an enumerated family, every reachable non-terminal state and all 25 joint '
          'actions the distribution sums to 1 and puts no mass on shared non-goal cells, swaps, obstacles, blocked walls, off-grid or >1-cell moves; own-goal '
          'states lead to the absorbing zero-reward terminal state; fences succeed with the (symbolic) configured probability.'),
    note='Bounded table sizes and board family (tier B); log/exp through LogVal.',
)
END_MANIFEST_ENTRY = True


SENTINELS = globals().get('SENTINELS', []) + [
    Sentinel('product-ignores-the-second-factor', 'msdm.core.distributions.discretefactortable', '                    logit = self.logit(si) + other.logit(oi)\n                    if logit == -np.inf:',
             '                    logit = self.logit(si)\n                    if logit == -np.inf:', ['re:^tables/disjoint/z1']),
]
