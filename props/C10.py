"""C10 -- TD learners' Q-tables are exactly their update rule applied to the experience."""
import math, itertools, random as _random, contextlib, copy
from fractions import Fraction
from symrun import core as S
from symrun.driver import Task, Sentinel
from symrun.patch import patched
from symrun.rngf import DemonicRng, Tripwire
from specs import mdpspec as M
from specs.mdpspec import Skel

import msdm.algorithms.tdlearning as td
import msdm.core.distributions.distributions as dd
import msdm.core.distributions.dictdistribution as dct
import msdm.core.distributions.softmaxdistribution as sm

FILES = ['msdm/algorithms/tdlearning.py', 'msdm/core/utils/dictutils.py']
FUNCTIONS = ['msdm.algorithms.tdlearning.epsilon_softmax_sample', 'msdm.algorithms.tdlearning.epsilon_softmax_dist', 'msdm.algorithms.tdlearning.argmax',
             'msdm.algorithms.tdlearning.TemporalDifferenceLearning.__init__', 'msdm.algorithms.tdlearning.TemporalDifferenceLearning._initial_q_table',
             'msdm.algorithms.tdlearning.TemporalDifferenceLearning._create_policy', 'msdm.algorithms.tdlearning.TemporalDifferenceLearning.train_on',
             'msdm.algorithms.tdlearning.TemporalDifferenceLearning._init_random_number_generator',
             'msdm.algorithms.tdlearning.QLearning._training', 'msdm.algorithms.tdlearning.SARSA._training',
             'msdm.algorithms.tdlearning.ExpectedSARSA._training', 'msdm.algorithms.tdlearning.DoubleQLearning._training',
             'msdm.core.utils.dictutils.defaultdict2.__getitem__']
ASSUMPTIONS = [
    'tier U (step contracts of QLearning/SARSA/ExpectedSARSA._training): both loops cut, the loop head state is havocked (any table content, any current state; SARSA: any available pending action); the Q-table is a total z3 array (rows of the real defaultdict2 materialise on first access; `s in q` is taken as true); epsilon_softmax_sample / epsilon_softmax_dist are replaced by their contracts (tier B: returns a key of the row it is given / a distribution determined by that row and the exploration parameters); builtin max over a row and the expectation sum are uninterpreted functions of (table, state) -- the clause pins WHICH table version and WHICH state they are applied to and, for the expectation, the summand of an arbitrary action; _initial_q_table is stubbed (its contract is decided in tier B); double Q-learning is not in tier U',
    'demonic generator: every experienced history of the bounded runs (episodes <= 2, <= 40 generator draws per run) is explored; per-step obligations '
    'are checked at every timestep through the event listener, so they also hold on the explored prefix of histories cut by the draw budget',
    'tier B: episodic MDP skeletons (state-dependent action sets, stochastic transitions, a self-loop); rewards and initial Q symbolic (all values); '
    'step size / discount / exploration rate are generic rationals incl. the end points 0 and 1 (keeps VCs linear)',
    'math.exp of a symbolic real: uninterpreted, positive, strictly monotone, exp(0)=1 (softmax temperature != 0)',
    'floats are mathematical reals',
]
LEMMAS = []
NOT_DECIDED = ["that the behaviour sampler's law equals epsilon_softmax_dist (only support inclusion is decided)", 'learning quality', 'runs beyond the bound']
EXPLANATION = 'C10: every experienced step is a real transition; table-after = published rule(table-before) with all other entries unchanged; interval invariant; returned policy.'


def episodic(tier):
    F = [
        Skel('e3-dag', [0, 1, 'g'], {0: ('a', 'b'), 1: ('a',), 'g': ('a',)},
             {(0, 'a'): (1, 'g'), (0, 'b'): ('g',), (1, 'a'): ('g',), ('g', 'a'): ('g',)}, absorbing=['g'], init=[0]),
        Skel('e3-loop', [0, 1, 'g'], {0: ('a', 'b'), 1: ('b',), 'g': ('a', 'b')},
             {(0, 'a'): (0, 1), (0, 'b'): ('g',), (1, 'b'): ('g', 0), ('g', 'a'): ('g',), ('g', 'b'): ('g',)}, absorbing=['g'], init=[0, 1]),
    ]
    F.append(M.relabel_actions(F[0], {'a': 0, 'b': ''}, 'e3-dag-falsy-actions'))     # appended last: other modules index this list by position
    return F


@contextlib.contextmanager
def facades(uses, budget=40):
    trip = Tripwire('random', uses, private_budget=budget)
    if not S.symbolic():
        with patched((td, dict(random=trip)), (dd, dict(random=trip)), (dct, dict(random=trip))):
            yield
        return
    with M.facades(), patched((td, dict(random=trip, math=S.MATH)), (dd, dict(random=trip, math=S.MATH)), (dct, dict(random=trip)), (sm, dict(math=S.MATH))):
        yield


def snap(q):
    return {s: dict(av) for s, av in q.items()}


PARAMS = {
    'default': dict(alpha=Fraction(1, 10), eps=Fraction(1, 20), temp=0),
    'alpha1-greedy': dict(alpha=1, eps=0, temp=0),
    'alpha0': dict(alpha=0, eps=Fraction(1, 2), temp=0),
    'softmax': dict(alpha=Fraction(1, 2), eps=Fraction(1, 4), temp=Fraction(7, 10)),
    'softmax-noeps': dict(alpha=Fraction(1, 3), eps=0, temp=2),
    'eps1': dict(alpha=Fraction(3, 4), eps=1, temp=0),
}


def h_td(algo, sk, pname, episodes, callable_q0, budget=40):
    mdp, v = M.make_mdp(sk, gamma='sym', numeric='generic', nseed=3)
    par = PARAMS[pname]
    alpha, eps, temp = S.const(par['alpha']), (S.const(par['eps']) if par['eps'] not in (0, 1) else float(par['eps'])), (S.const(par['temp']) if par['temp'] else 0.0)
    g = v.gamma
    Rlo, Rhi = -3, 2
    for k in v.R:
        if isinstance(v.R[k], S.SymReal):
            S.assume(S.And(S.le(Rlo, v.R[k]), S.le(v.R[k], Rhi)))
    if callable_q0:
        q0leaf = {(s, a): S.real('q0_%s_%s' % (s, a), -5, 5) for s in sk.states for a in sk.actions.get(s, ())}
        init_q = lambda s, a: q0leaf[(s, a)]
    else:
        c = S.real('q0', -5, 5)
        q0leaf = {(s, a): c for s in sk.states for a in sk.actions.get(s, ())}
        init_q = lambda s, a: c   # the constant form is wrapped by the class itself when a float is given; a leaf needs the callable form

    def q0(s, a):
        return 0.0 if s in sk.absorbing else q0leaf[(s, a)]
    lo = S.Min([-5, Fraction(Rlo) / (1 - g), 0] if not S.symbolic() else [S.const(-5), S.const(Rlo) / (1 - g), S.const(0)])
    hi = S.Max([5, Fraction(Rhi) / (1 - g), 0] if not S.symbolic() else [S.const(5), S.const(Rhi) / (1 - g), S.const(0)])
    uses = []
    log = dict(prev=None, steps=[], pending_na=None, episodes=0, prev2=None)
    two = algo == 'DoubleQLearning'

    def tab(L, name):
        return snap(L[name])

    def before(table, s, a):
        """value of an entry before the step: the last snapshot, or the configured initial value if never materialised"""
        if table is not None and s in table and a in table[s]:
            return table[s][a]
        return q0(s, a)

    class Listener(td.TDLearningEventListener):
        def __init__(self):
            pass

        def end_of_timestep(self, L):
            s, a, ns, r = L['s'], L['a'], L['ns'], L['r']
            ok = [S.truth(s not in sk.absorbing), S.truth(a in sk.actions.get(s, ())), S.truth((s, a) in sk.supp and ns in sk.supp[(s, a)])]
            if (s, a) in sk.supp and ns in sk.supp[(s, a)]:
                ok.append(S.eq(r, v.R[(s, a, ns)]))
            if log['steps']:
                ps, pa, pns = log['steps'][-1]
                if not log['new_episode']:
                    ok.append(S.truth(pns == s))
            if log['new_episode']:
                ok.append(S.truth(s in sk.init))
            S.check('%s:experienced-step-is-a-real-transition-from-a-non-absorbing-state' % algo, S.And(ok))
            log['new_episode'] = False
            nacts = sk.actions.get(ns, ())
            if not two:
                qb, qa = log['prev'], tab(L, 'q')
                cur_b = before(qb, s, a)
                if algo == 'QLearning':
                    target = r + g * S.Max([before(qb, ns, x) for x in nacts])
                elif algo == 'SARSA':
                    na = L['na']
                    S.check('SARSA:next-action-is-available-at-the-next-state', S.truth(na in nacts))
                    if log['pending_na'] is not None:
                        S.check('SARSA:the-action-executed-is-the-one-the-previous-update-used', S.truth(a == log['pending_na']))
                    log['pending_na'] = na
                    target = r + g * before(qb, ns, na)
                else:  # ExpectedSARSA
                    qn = {x: before(qb, ns, x) for x in nacts}
                    pi = spec_eps_softmax(qn, eps, temp)
                    target = r + g * S.Sum(pi[x] * qn[x] for x in nacts)
                want = cur_b + alpha * (target - cur_b)
                S.check('%s:table-after-is-the-published-rule-applied-to-the-table-before' % algo, S.eq(qa[s][a], want))
                frame = []
                for s2 in qa:
                    for a2 in qa[s2]:
                        if (s2, a2) != (s, a):
                            frame.append(S.eq(qa[s2][a2], before(qb, s2, a2)))
                    frame.append(S.truth(set(qa[s2].keys()) == set(sk.actions.get(s2, ()))))
                S.check('%s:no-other-entry-changes;rows-are-keyed-by-the-available-actions' % algo, S.And(frame))
                S.check('%s:updated-value-stays-in-the-interval-spanned-by-initial-values-and-discounted-reward-bounds' % algo,
                        S.And(S.le(lo, qa[s][a]), S.le(qa[s][a], hi)))
                S.check('%s:absorbing-states-stay-at-0' % algo, S.And([S.eq(x, 0) for s2 in qa if s2 in sk.absorbing for x in qa[s2].values()]))
                log['prev'] = qa
            else:
                b1, b2 = log['prev'], log['prev2']
                a1, a2 = tab(L, 'q1'), tab(L, 'q2')
                ch1 = not _same(before(b1, s, a), a1[s][a]) if s in a1 and a in a1[s] else False
                # which table was updated is decided by the generator draw; both readings are allowed, exactly one must hold
                def rule(qx_b, qy_b):
                    mx = S.Max([before(qx_b, ns, x) for x in nacts])
                    cands = [x for x in nacts]
                    cur_b = before(qx_b, s, a)
                    return [S.And(S.eq(before(qx_b, ns, x), mx), S.eq(new, cur_b + alpha * (r + g * before(qy_b, ns, x) - cur_b))) for x in cands for new in [None]]
                cur1, cur2 = before(b1, s, a), before(b2, s, a)
                mx1 = S.Max([before(b1, ns, x) for x in nacts])
                mx2 = S.Max([before(b2, ns, x) for x in nacts])
                upd1 = S.And(S.Or([S.And(S.eq(before(b1, ns, x), mx1), S.eq(a1[s][a], cur1 + alpha * (r + g * before(b2, ns, x) - cur1))) for x in nacts]),
                             S.eq(a2[s][a] if s in a2 and a in a2[s] else cur2, cur2))
                upd2 = S.And(S.Or([S.And(S.eq(before(b2, ns, x), mx2), S.eq(a2[s][a], cur2 + alpha * (r + g * before(b1, ns, x) - cur2))) for x in nacts]),
                             S.eq(a1[s][a] if s in a1 and a in a1[s] else cur1, cur1))
                S.check('DoubleQLearning:one-table-moves-towards-the-cross-table-target-at-its-own-argmax', S.Or(upd1, upd2))
                frame = []
                for tb, ta in ((b1, a1), (b2, a2)):
                    for s2 in ta:
                        for a2_ in ta[s2]:
                            if (s2, a2_) != (s, a):
                                frame.append(S.eq(ta[s2][a2_], before(tb, s2, a2_)))
                S.check('DoubleQLearning:no-other-entry-changes', S.And(frame))
                log['prev'], log['prev2'] = a1, a2
            log['steps'].append((s, a, ns))

        def end_of_episode(self, L):
            log['episodes'] += 1
            log['new_episode'] = True
            log['pending_na'] = None
            if log['steps']:
                S.check('%s:episode-ends-in-an-absorbing-state' % algo, S.truth(log['steps'][-1][2] in sk.absorbing if not log.get('empty_ep') else True))

        def results(self):
            return None
    log['new_episode'] = True
    with facades(uses, budget):
        cls = getattr(td, algo)
        learner = cls(episodes=episodes, step_size=alpha, rand_choose=eps, softmax_temp=temp, initial_q=init_q, seed=11, event_listener_class=Listener)
        rngs = []
        res = learner.train_on(mdp)
        q = res.q_values
        # returned table = fold of the rule over the experience = the last table the listener saw
        if not two:
            last = log['prev']
            ok = []
            for s2 in q:
                for a2 in q[s2]:
                    ok.append(S.eq(q[s2][a2], before(last, s2, a2)))
            S.check('%s:returned-table-is-the-table-after-the-last-experienced-step' % algo, S.And(ok))
        else:
            ok = []
            for s2 in q:
                for a2 in q[s2]:
                    ok.append(S.eq(q[s2][a2], (before(log['prev'], s2, a2) + before(log['prev2'], s2, a2)) / 2))
                ok.append(S.truth(set(q[s2].keys()) == set(sk.actions.get(s2, ()))))
            S.check('DoubleQLearning:returned-table-is-the-mean-of-both-tables', S.And(ok))
        S.check('%s:ran-the-configured-number-of-episodes' % algo, S.truth(log['episodes'] == episodes))
        # policy
        okp = []
        for s2 in sk.states:
            d = res.policy.action_dist(s2)
            if s2 in q:
                mx = S.Max(list(q[s2].values()))
                best = [a2 for a2 in q[s2] if bool(q[s2][a2] == mx)]
            else:
                best = list(sk.actions.get(s2, ()))
            okp.append(S.truth(set(d.support) == set(best)))
            okp += [S.eq(d.prob(a2), S.const(Fraction(1, len(best)))) for a2 in best]
        S.check('%s:policy-uniform-over-maximal-Q-actions-of-visited-states,all-available-actions-elsewhere' % algo, S.And(okp))
        S.check('%s:only-the-private-seeded-generator-is-used' % algo, S.truth(not [u for u in uses if 'Random' not in u]), detail=repr(uses))


def _same(x, y):
    return x is y


def spec_eps_softmax(qn, eps, temp):
    """pi_eps(a) = eps/|A| + (1-eps) * softmax_temp(q)(a); temperature 0 = uniform over the maximisers"""
    acts = list(qn)
    n = len(acts)
    if temp == 0:
        mx = S.Max(list(qn.values()))
        best = [a for a in acts if bool(qn[a] == mx)]
        base = {a: (S.const(Fraction(1, len(best))) if a in best else 0) for a in acts}
    else:
        mxs = S.Max([qn[a] / temp for a in acts])
        ws = {a: (S.MATH.exp(qn[a] / temp - mxs) if S.symbolic() else math.exp(float(qn[a]) / float(temp) - float(mxs))) for a in acts}
        Z = S.Sum(ws.values())
        base = {a: ws[a] / Z for a in acts}
    if isinstance(eps, float) and eps == 0.0:
        return base
    return {a: eps * S.const(Fraction(1, n)) + (1 - eps) * base[a] for a in acts}


def h_sample(n, pname):
    """epsilon_softmax_sample returns a key of its argument; a maximiser when eps = 0 and temperature 0"""
    par = PARAMS[pname]
    qs = {('k', i): S.real('q_%d' % i) for i in range(n)}
    uses = []
    with facades(uses):
        rng = DemonicRng('rng')
        eps = float(par['eps']) if par['eps'] in (0, 1) else S.const(par['eps'])
        temp = S.const(par['temp']) if par['temp'] else 0.0
        a = td.epsilon_softmax_sample(qs, eps, temp, rng)
        S.check('epsilon_softmax_sample:returns-a-key-of-its-argument', S.truth(a in qs))
        if par['eps'] == 0 and not par['temp']:
            S.check('epsilon_softmax_sample:greedy-when-eps=0-and-temperature-0', S.eq(qs[a], S.Max(list(qs.values()))))
        d = td.epsilon_softmax_dist(qs, eps, temp)
        pi = spec_eps_softmax(qs, eps, temp)
        S.check('epsilon_softmax_dist:eps/|A|+(1-eps)*softmax;normalised', S.And([S.eq(d.prob(k), pi[k]) for k in qs] + [S.eq(S.Sum(d.prob(k) for k in qs), 1)]))
        S.check('epsilon_softmax_sample:draws-only-from-the-supplied-generator', S.truth(not uses))


def rt_real(seed, n):
    """R: real seeds, float parameters: fold the published rule over the recorded experience independently and compare the returned table"""
    import random
    from msdm.core.mdp import QuickTabularMDP
    from msdm.core.distributions import DictDistribution
    rnd = random.Random(seed)
    out = []
    T = {(0, 'l'): {1: .6, 0: .4}, (0, 'r'): {2: 1.}, (1, 'l'): {2: .5, 0: .5}, (2, 'l'): {2: 1.}, (2, 'r'): {2: 1.}}
    R = {(0, 'l', 1): -1., (0, 'l', 0): -.5, (0, 'r', 2): -3., (1, 'l', 2): 2., (1, 'l', 0): -1.}
    acts = {0: ('l', 'r'), 1: ('l',), 2: ('l', 'r')}
    for k in range(n):
        g = rnd.choice([.5, .9])
        m = QuickTabularMDP(next_state_dist=lambda s, a: DictDistribution(T[(s, a)]), reward=lambda s, a, ns: R.get((s, a, ns), 0.), actions=lambda s: acts[s],
                            initial_state_dist=DictDistribution({0: .5, 1: .5}), is_absorbing=lambda s: s == 2, discount_rate=g)
        alpha, eps, temp, q0 = rnd.choice([0., .1, .5, 1.]), rnd.choice([0., .1, .5]), rnd.choice([0., .7]), rnd.choice([0., -1., 2.])
        for algo in ('QLearning', 'SARSA', 'ExpectedSARSA'):
            exp = []

            class L(td.TDLearningEventListener):
                def __init__(self): pass
                def end_of_timestep(self, lv): exp.append((lv['s'], lv['a'], lv['ns'], lv['r'], lv.get('na')))
                def end_of_episode(self, lv): pass
                def results(self): return None
            st = random.getstate()
            res = getattr(td, algo)(episodes=4, step_size=alpha, rand_choose=eps, softmax_temp=temp, initial_q=q0, seed=k, event_listener_class=L).train_on(m)
            untouched = random.getstate() == st
            q = {s: {a: (0. if s == 2 else q0) for a in acts[s]} for s in acts}
            for (s, a, ns, r, na) in exp:
                if algo == 'QLearning':
                    tgt = r + g * max(q[ns].values())
                elif algo == 'SARSA':
                    tgt = r + g * q[ns][na]
                else:
                    if temp == 0:
                        mx = max(q[ns].values())
                        best = [x for x in q[ns] if q[ns][x] == mx]
                        base = {x: (1 / len(best) if x in best else 0.) for x in q[ns]}
                    else:
                        mm = max(q[ns].values())
                        w = {x: math.exp((q[ns][x] - mm) / temp) for x in q[ns]}
                        base = {x: w[x] / sum(w.values()) for x in q[ns]}
                    pi = {x: eps / len(q[ns]) + (1 - eps) * base[x] for x in q[ns]}
                    tgt = r + g * sum(pi[x] * q[ns][x] for x in q[ns])
                q[s][a] += alpha * (tgt - q[s][a])
            ok = all(abs(res.q_values[s][a] - q[s][a]) < 1e-9 for s in res.q_values for a in res.q_values[s])
            out.append(dict(name='rt:%s:returned-table-equals-the-rule-folded-over-the-experience' % algo, ok=ok,
                            witness=dict(alpha=alpha, eps=eps, temp=temp, q0=q0, gamma=g, seed=k, got=repr(dict(res.q_values)), want=repr(q))))
            out.append(dict(name='rt:%s:global-generator-untouched' % algo, ok=untouched, witness=dict(seed=k)))
        # a learner OBJECT that is reused on a second, different model (mirrored: state 0 is the absorbing one, other action sets) must behave like a fresh one
        T2 = {(2, 'l'): {1: .6, 2: .4}, (2, 'r'): {0: 1.}, (1, 'r'): {0: .5, 2: .5}, (1, 'l'): {1: 1.}, (0, 'l'): {0: 1.}}
        acts2 = {2: ('l', 'r'), 1: ('r', 'l'), 0: ('l',)}
        m2 = QuickTabularMDP(next_state_dist=lambda s, a: DictDistribution(T2[(s, a)]), reward=lambda s, a, ns: -1. - .5 * s, actions=lambda s: acts2[s],
                             initial_state_dist=DictDistribution({2: .5, 1: .5}), is_absorbing=lambda s: s == 0, discount_rate=g)
        for algo in ('QLearning', 'SARSA', 'ExpectedSARSA', 'DoubleQLearning'):
            mk = lambda: getattr(td, algo)(episodes=3, step_size=alpha, rand_choose=eps, softmax_temp=temp, initial_q=q0, seed=k)
            from symrun.driver import time_limit, CallTimeLimit
            import time as _time
            t_ = _time.time()
            r_fresh = mk().train_on(m2)
            fresh_s = _time.time() - t_
            reused = mk()
            r_first = reused.train_on(m)
            q_first = {s: dict(v_) for s, v_ in r_first.q_values.items()}      # snapshot: the policy of this result is built lazily
            try:
                with time_limit(30):          # a fresh learner needs milliseconds here
                    r_reused = reused.train_on(m2)
            except CallTimeLimit:
                out.append(dict(name='rt:%s:a-reused-learner-object-equals-a-fresh-one-on-a-second-model;absorbing-rows-0' % algo, ok=False,
                                witness=dict(alpha=alpha, eps=eps, temp=temp, q0=q0, gamma=g, seed=k), detail='the reused learner did not return within 30 s; a fresh one took %.3f s' % fresh_s))
                continue
            same = set(r_reused.q_values) == set(r_fresh.q_values) and all(
                set(r_reused.q_values[s]) == set(r_fresh.q_values[s]) and all(abs(r_reused.q_values[s][a] - r_fresh.q_values[s][a]) < 1e-12 for a in r_fresh.q_values[s])
                for s in r_fresh.q_values)
            zero_abs = all(v_ == 0 for v_ in r_reused.q_values.get(0, {}).values())
            # the FIRST result stays what it was: its (lazily evaluated) policy is greedy for ITS table even when asked after the second training
            okp = True
            for s_ in q_first:
                mx = max(q_first[s_].values())
                okp &= set(r_first.policy.action_dist(s_).support) == {a_ for a_, x_ in q_first[s_].items() if x_ == mx}
            okp &= {s: dict(v_) for s, v_ in r_first.q_values.items()} == q_first
            out.append(dict(name='rt:%s:an-earlier-result-is-not-changed-by-training-the-same-learner-again' % algo, ok=bool(okp),
                            witness=dict(alpha=alpha, eps=eps, temp=temp, q0=q0, gamma=g, seed=k, first=repr(q_first))))
            out.append(dict(name='rt:%s:a-reused-learner-object-equals-a-fresh-one-on-a-second-model;absorbing-rows-0' % algo, ok=bool(same and zero_abs),
                            witness=dict(alpha=alpha, eps=eps, temp=temp, q0=q0, gamma=g, seed=k, reused=repr({s: dict(v_) for s, v_ in r_reused.q_values.items()}),
                                         fresh=repr({s: dict(v_) for s, v_ in r_fresh.q_values.items()}))))
    return out


# ---------------------------------------------------------------- tier U: one ARBITRARY iteration of the real training loops over an abstract table / model

def h_step_U(algo):
    """QLearning / SARSA _training with both loops cut (episodes loop, timestep loop), an ABSTRACT Q-table (z3 array state x action -> real, any size, any
    content), an uninterpreted model (Abs, Supp, Rw, Init), symbolic step size and discount, and the behaviour sampler replaced by its contract (returns
    an action available in the row it was given).  Obligation at the back edge of the timestep loop, i.e. for EVERY timestep of EVERY run:
    the step is a real transition from a non-absorbing state, table-after = published rule(table-before) at (s,a) and unchanged everywhere else, the loop
    continues from the sampled next state (and, SARSA, with the action the update used).  By induction over timesteps the returned table is the rule folded
    over the experience -- no bound on episodes, steps, states or actions."""
    import z3, os
    from symrun.absx import Atom, fresh_atom
    from symrun.cut import cut, CutSpec
    from symrun.driver import ROOT
    I, B, Rl = z3.IntSort(), z3.BoolSort(), z3.RealSort()
    QS = z3.ArraySort(I, I, Rl)
    Abs, Supp, Rw, Init, Avail = (z3.Function('Abs', I, B), z3.Function('Supp', I, I, I, B), z3.Function('Rw', I, I, I, Rl), z3.Function('Init', I, B),
                                  z3.Function('Avail', I, I, B))
    MaxRow = z3.Function('MaxRow', QS, I, Rl)              # max over the available actions of a row of a given table (contract of builtin max on row.values())
    alpha, gamma = S.real('alpha'), S.real('gamma')
    the_rng = object()

    class Table:
        def __init__(self, arr): self.arr = arr
        def __getitem__(self, st): return Row(self, st)
        def __contains__(self, st): return True             # the abstract table is total (rows materialise on first access in the real defaultdict2)
        def __setitem__(self, st, row): raise S.Unsupported('row assignment on the abstract table')

    class Row:
        def __init__(self, t, st): self.t, self.st = t, st
        def __getitem__(self, a): return S.SymReal(z3.Select(self.t.arr, self.st.e, a.e))
        def __setitem__(self, a, v): self.t.arr = z3.Store(self.t.arr, self.st.e, a.e, S.as_real(v).e)
        def values(self): return RowValues(self.t.arr, self.st)

    class RowValues:
        def __init__(self, arr, st): self.arr, self.st = arr, st
        def __iter__(self): raise S.Unsupported('iteration over an abstract row')

    def symmax(x, *rest):
        if isinstance(x, RowValues):
            return S.SymReal(MaxRow(x.arr, x.st.e))
        return max(x, *rest)

    class Sampler:
        def __init__(self, pred, base): self.pred, self.base = pred, base
        def sample(self, *, rng=None, k=1):
            S.check('U:%s:every-draw-uses-the-learner-generator' % algo, S.truth(rng is the_rng))
            x = fresh_atom(self.base)
            S.assume(S.SymBool(self.pred(x.e)))
            return x

    class MDP:
        discount_rate = gamma
        def is_absorbing(self, st): return S.SymBool(Abs(st.e))
        def next_state_dist(self, st, a): return Sampler(lambda n: Supp(st.e, a.e, n), 'ns')
        def reward(self, st, a, ns): return S.SymReal(Rw(st.e, a.e, ns.e))
        def initial_state_dist(self): return Sampler(lambda n: Init(n), 's0')
        def actions(self, st): raise S.Unsupported('actions() of the abstract model')
    picks = []

    def sampler_stub(action_values, rand_choose, softmax_temp, rng):
        """contract of epsilon_softmax_sample (tier B): returns a key of its argument; draws only from rng"""
        S.check('U:%s:behaviour-sampler-gets-a-row-of-the-CURRENT-table,the-configured-exploration-parameters-and-the-generator' % algo, S.truth(
            isinstance(action_values, Row) and action_values.t is cur['table'] and rand_choose is learner.rand_choose and softmax_temp is learner.softmax_temp and rng is the_rng))
        a = fresh_atom('act')
        S.assume(S.SymBool(Avail(action_values.st.e, a.e)))
        picks.append(dict(state=action_values.st, action=a, arr=action_values.t.arr))
        return a
    # expected SARSA: epsilon_softmax_dist replaced by its contract (a distribution over the keys of the row it was given, determined by that row and the
    # exploration parameters); the expectation  sum([q[ns][na]*p for na, p in na_dist.items()])  is seen element-wise through an arbitrary action `focus`:
    # the summand must be Q(ns, focus) * P(focus | row) and the total is the uninterpreted expectation ExpQ(table, ns)
    ExpQ = z3.Function('ExpQ', QS, I, Rl)
    Pr = z3.Function('BehaviourProb', QS, I, I, Rl)
    dists = []

    class ADist:
        def __init__(self, row): self.arr, self.st = row.t.arr, row.st
        def items(self):
            f = fresh_atom('focus_action')
            self.focus = f
            return [(f, S.SymReal(Pr(self.arr, self.st.e, f.e)))]

    def dist_stub(action_values, rand_choose, softmax_temp):
        S.check('U:%s:behaviour-distribution-is-built-from-a-row-of-the-CURRENT-table-and-the-configured-parameters' % algo, S.truth(
            isinstance(action_values, Row) and action_values.t is cur['table'] and rand_choose is learner.rand_choose and softmax_temp is learner.softmax_temp))
        d = ADist(action_values)
        dists.append(dict(state=action_values.st, arr=action_values.t.arr, dist=d))
        return d

    def symsum(x, *rest):
        if dists and isinstance(x, list) and len(x) == 1 and isinstance(x[0], S.SymReal):
            d = dists[-1]
            f = d['dist'].focus
            S.check('U:%s:the-expectation-weights-Q(next-state,action)-by-the-behaviour-probability-of-that-action' % algo,
                    S.eq(x[0], S.SymReal(z3.Select(d['arr'], d['state'].e, f.e)) * S.SymReal(Pr(d['arr'], d['state'].e, f.e))))
            return S.SymReal(ExpQ(d['arr'], d['state'].e))
        return sum(x, *rest)
    cur = {}
    head = {}
    phase = {'back': False}

    class Listener:
        def end_of_timestep(self, L): phase['back'] = True
        def end_of_episode(self, L): pass
        def results(self): return None
    learner = getattr(td, algo)(episodes=S.integer('episodes', 0, None), step_size=alpha, rand_choose=S.real('eps'), softmax_temp=S.real('temp'), initial_q=0.0)

    def inv0(L):
        return S.truth(isinstance(L['q'], Table))

    def havoc0(L):
        cur['table'] = Table(z3.Const(S.cur().fresh('Q_episode'), QS))
        S.cur().inputs[str(cur['table'].arr)] = cur['table'].arr
        return dict(q=cur['table'], ep=None, s=None, a=None, ns=None, r=None, na=None)

    def inv1(L):
        carried = [S.truth(L['q'] is cur['table'])]
        if algo == 'SARSA':       # loop-carried: the pending action is available at the current state
            carried.append(S.SymBool(Avail(L['s'].e, L['a'].e)))
        if not phase['back']:
            return S.And(carried)
        # ---- the step relation, evaluated at the back edge of the timestep loop
        Q0, s0 = head['arr'], head['s']
        a0 = head['a'] if algo == 'SARSA' else L['a']
        ns, r, q = L['ns'], L['r'], L['q']
        X, Y = fresh_atom('anyS'), fresh_atom('anyA')
        q00 = z3.Select(Q0, s0.e, a0.e)
        if algo == 'QLearning':
            target = S.SymReal(Rw(s0.e, a0.e, ns.e)) + gamma * S.SymReal(MaxRow(Q0, ns.e))
            cont = [S.SymBool(L['s'].e == ns.e)]
            chosen = [S.truth(len(picks) == 1 and picks[0]['state'] is s0 and picks[0]['action'] is L['a']), S.SymBool(picks[0]['arr'] == Q0)]
        elif algo == 'ExpectedSARSA':
            target = S.SymReal(Rw(s0.e, a0.e, ns.e)) + gamma * S.SymReal(ExpQ(Q0, ns.e))
            cont = [S.SymBool(L['s'].e == ns.e)]
            chosen = [S.truth(len(picks) == 1 and picks[0]['state'] is s0 and picks[0]['action'] is L['a']), S.SymBool(picks[0]['arr'] == Q0),
                      S.truth(len(dists) == 1 and dists[0]['state'] is ns), S.SymBool(dists[0]['arr'] == Q0)]
        else:
            na = L['na']
            target = S.SymReal(Rw(s0.e, a0.e, ns.e)) + gamma * S.SymReal(z3.Select(Q0, ns.e, na.e))
            cont = [S.SymBool(L['s'].e == ns.e), S.SymBool(L['a'].e == na.e)]
            chosen = [S.truth(len(picks) == 1 and picks[0]['state'] is ns and picks[0]['action'] is na), S.SymBool(picks[0]['arr'] == Q0)]
        new = S.SymReal(q00) + alpha * (target - S.SymReal(q00))
        want = S.If(S.SymBool(z3.And(X.e == s0.e, Y.e == a0.e)), new, S.SymReal(z3.Select(Q0, X.e, Y.e)))
        S.check('U:%s:experienced-step-is-a-real-transition-from-a-non-absorbing-state' % algo, S.And([
            S.Not(S.SymBool(Abs(s0.e))), S.SymBool(Avail(s0.e, a0.e)), S.SymBool(Supp(s0.e, a0.e, ns.e)), S.eq(r, S.SymReal(Rw(s0.e, a0.e, ns.e)))]))
        S.check('U:%s:the-behaviour-sampler-chose-the-action-on-the-table-before-the-update' % algo, S.And(chosen))
        S.check('U:%s:table-after-is-the-published-rule-applied-to-the-table-before;no-other-entry-changes' % algo, S.And([
            S.truth(q is cur['table']), S.eq(S.SymReal(z3.Select(q.arr, X.e, Y.e)), want)]))
        S.check('U:%s:the-loop-continues-from-the-sampled-next-state' % algo, S.And(cont))
        return S.And(carried)

    def havoc1(L):
        t = cur['table']
        t.arr = z3.Const(S.cur().fresh('Q_before'), QS)                       # any table content at the head of an arbitrary timestep
        S.cur().inputs[str(t.arr)] = t.arr
        head['arr'] = t.arr
        head['s'] = fresh_atom('state')
        d = dict(q=t, s=head['s'], a=None, ns=None, r=None, na=None)
        if algo == 'SARSA':
            head['a'] = fresh_atom('pending_action')                            # its availability is part of the invariant (assumed by the cut, proved at init/step)
            d['a'] = head['a']
        del picks[:]
        del dists[:]
        return d
    spec0 = CutSpec(inv=inv0, havoc=havoc0, element=lambda L, it: S.integer('ghost_ep', 0, None), iter_src='range(self.episodes)')
    spec1 = CutSpec(inv=inv1, havoc=havoc1)
    fcut, text, info = cut(getattr(td, algo)._training, {0: spec0, 1: spec1}, dump_dir=os.path.join(ROOT, 'evidence', 'extracted'))
    t0 = Table(z3.Const('Q_initial', QS))
    cur['table'] = t0
    learner._initial_q_table = lambda m: t0
    with patched((td, dict(max=symmax, epsilon_softmax_sample=sampler_stub, epsilon_softmax_dist=dist_stub, sum=symsum))):
        res = fcut(learner, MDP(), the_rng, Listener())
    S.check('U:%s:returns-the-table-it-updated' % algo, S.truth(isinstance(res, Table) and (res is cur['table'] or res is t0)))


def tasks(tier, seed):
    T = []
    for sk in episodic(tier):
        for algo in ('QLearning', 'SARSA', 'ExpectedSARSA', 'DoubleQLearning'):
            for pname in PARAMS:
                if algo == 'DoubleQLearning' and pname.startswith('softmax') and tier == 'quick':
                    continue
                if sk.name.endswith('falsy-actions') and pname not in ('default', 'softmax'):
                    continue
                for ep in ((1, 2) if (tier == 'thorough' or (pname in ('default', 'softmax') and algo != 'DoubleQLearning')) else (1,)):
                    loop = sk.name == 'e3-loop'
                    if loop and (ep == 2 or pname not in ('default', 'alpha1-greedy', 'eps1')):
                        continue      # histories through the self-loop are cut by a draw budget; temperature-0 settings only
                    budget = (9 if algo != 'DoubleQLearning' else 8) if loop else 40
                    T.append(Task('%s/%s/%s/ep%d' % (algo, sk.name, pname, ep), h_td, (algo, sk, pname, ep, pname != 'default', budget), tier='B',
                                  max_paths=6000, deadline_s=300))
    for n in (1, 2, 3):
        for pname in PARAMS:
            T.append(Task('sample/n%d/%s' % (n, pname), h_sample, (n, pname), tier='B'))
    for algo in ('QLearning', 'SARSA', 'ExpectedSARSA'):
        T.append(Task('U/step/%s/abstract-table-and-model' % algo, h_step_U, (algo,), tier='U', note='both training loops cut; arbitrary table, model, step size, discount'))
    T.append(Task('rt/real-seeds', rt_real, (seed, 10 if tier == 'quick' else 80), tier='R', kind='rt'))
    return T


MANIFEST_ENTRY = dict(
    category='other',
    text=('Contracts on the four _training loops, _initial_q_table, _create_policy, epsilon_softmax_sample/dist: through the event listener '
          'every experienced step is checked to be a real transition, and the table after the step is proved equal to the published rule '
          '(Q-learning, SARSA, expected SARSA, double Q) applied to the table before it with every other entry unchanged; interval invariant; '
          'returned table = last table (mean for double Q); returned policy. All histories of bounded runs under a demonic generator.'),
    note='Bounded runs (episodes<=2, draw budget), skeletons, generic rational step size/discount/epsilon incl. 0 and 1 (tier B); exp uninterpreted; sampling law not decided. Tier U: one arbitrary timestep of Q-learning / SARSA / expected SARSA over an abstract table and model (rule applied, frame, continuation), by induction the whole run.',
)
END_MANIFEST_ENTRY = True


SENTINELS = globals().get('SENTINELS', []) + [
    Sentinel('U:qlearning-bootstraps-from-the-current-state', 'msdm.algorithms.tdlearning', "q[s][a] += self.step_size*(r + mdp.discount_rate*max(q[ns].values()) - q[s][a])",
             "q[s][a] += self.step_size*(r + mdp.discount_rate*max(q[s].values()) - q[s][a])", ['U/step/QLearning/abstract-table-and-model']),
    Sentinel('U:qlearning-drops-the-discount', 'msdm.algorithms.tdlearning', "q[s][a] += self.step_size*(r + mdp.discount_rate*max(q[ns].values()) - q[s][a])",
             "q[s][a] += self.step_size*(r + max(q[ns].values()) - q[s][a])", ['U/step/QLearning/abstract-table-and-model']),
    Sentinel('U:sarsa-bootstraps-from-the-old-action', 'msdm.algorithms.tdlearning', "q[s][a] += self.step_size*(r + mdp.discount_rate*q[ns][na] - q[s][a])",
             "q[s][a] += self.step_size*(r + mdp.discount_rate*q[ns][a] - q[s][a])", ['U/step/SARSA/abstract-table-and-model']),
    Sentinel('U:sarsa-executes-a-different-action-than-it-updated-with', 'msdm.algorithms.tdlearning', "                s, a = ns, na\n", "                s, a = ns, epsilon_softmax_sample(q[ns], self.rand_choose, self.softmax_temp, rng)\n",
             ['U/step/SARSA/abstract-table-and-model']),
    Sentinel('U:expected-sarsa-expects-over-the-current-state', 'msdm.algorithms.tdlearning', "na_dist = epsilon_softmax_dist(q[ns], self.rand_choose, self.softmax_temp)",
             "na_dist = epsilon_softmax_dist(q[s], self.rand_choose, self.softmax_temp)", ['U/step/ExpectedSARSA/abstract-table-and-model']),
    Sentinel('U:expected-sarsa-forgets-the-probabilities', 'msdm.algorithms.tdlearning', "sum([q[ns][na]*p for na, p in na_dist.items()])", "sum([q[ns][na] for na, p in na_dist.items()])",
             ['U/step/ExpectedSARSA/abstract-table-and-model']),
    Sentinel('U:expected-sarsa-step-size-applied-twice', 'msdm.algorithms.tdlearning', "                q[s][a] += self.step_size*td_error\n                # end of timestep\n                event_listener.end_of_timestep(locals())\n                s = ns\n            event_listener.end_of_episode(locals())\n        return q\n",
             "                q[s][a] += self.step_size*self.step_size*td_error\n                # end of timestep\n                event_listener.end_of_timestep(locals())\n                s = ns\n            event_listener.end_of_episode(locals())\n        return q\n",
             ['U/step/ExpectedSARSA/abstract-table-and-model']),
    Sentinel('U:sarsa-chooses-the-next-action-after-the-update', 'msdm.algorithms.tdlearning',
             "                na = epsilon_softmax_sample(q[ns], self.rand_choose, self.softmax_temp, rng)\n                # update\n                q[s][a] += self.step_size*(r + mdp.discount_rate*q[ns][na] - q[s][a])\n",
             "                na = a\n                q[s][a] += self.step_size*(r + mdp.discount_rate*max(q[ns].values()) - q[s][a])\n                na = epsilon_softmax_sample(q[ns], self.rand_choose, self.softmax_temp, rng)\n",
             ['U/step/SARSA/abstract-table-and-model']),
]
