"""C06 -- matrix, table and wrapper views of an MDP agree with its functional definition."""
import math, itertools
from fractions import Fraction
import numpy as np
from symrun import core as S
from symrun.driver import Task, Sentinel
from symrun.npf import NP, sym_array
from symrun.patch import patched
from specs import mdpspec as M
from specs.mdpspec import Skel

import msdm.core.mdp.tabularmdp as tm
import msdm.core.mdp.mdp as mm
import msdm.core.mdp.quickmdp as qm

FILES = ['msdm/core/mdp/mdp.py', 'msdm/core/mdp/tabularmdp.py', 'msdm/core/mdp/quickmdp.py', 'msdm/core/mdp/tables.py']
FUNCTIONS = [
    'msdm.core.mdp.mdp.MarkovDecisionProcess.reachable_states',
    'msdm.core.mdp.tabularmdp.TabularMarkovDecisionProcess.state_list', 'msdm.core.mdp.tabularmdp.TabularMarkovDecisionProcess.action_list',
    'msdm.core.mdp.tabularmdp.TabularMarkovDecisionProcess.transition_matrix', 'msdm.core.mdp.tabularmdp.TabularMarkovDecisionProcess.action_matrix',
    'msdm.core.mdp.tabularmdp.TabularMarkovDecisionProcess.reward_matrix', 'msdm.core.mdp.tabularmdp.TabularMarkovDecisionProcess.state_action_reward_matrix',
    'msdm.core.mdp.tabularmdp.TabularMarkovDecisionProcess.initial_state_vec', 'msdm.core.mdp.tabularmdp.TabularMarkovDecisionProcess.absorbing_state_vec',
    'msdm.core.mdp.tabularmdp.TabularMarkovDecisionProcess._unable_to_reach_absorbing', 'msdm.core.mdp.tabularmdp.TabularMarkovDecisionProcess.dead_end_state_vec',
    'msdm.core.mdp.tabularmdp.TabularMarkovDecisionProcess.reachable_state_vec',
    'msdm.core.mdp.tabularmdp.TabularMarkovDecisionProcess.transition_table', 'msdm.core.mdp.tabularmdp.TabularMarkovDecisionProcess.reward_table',
    'msdm.core.mdp.tabularmdp.TabularMarkovDecisionProcess.state_action_reward_table',
    'msdm.core.mdp.tabularmdp.TabularMarkovDecisionProcess.from_matrices',
    'msdm.core.mdp.quickmdp.QuickMDP.__init__', 'msdm.core.mdp.quickmdp.QuickMDP.next_state_dist', 'msdm.core.mdp.quickmdp.QuickMDP.reward',
    'msdm.core.mdp.quickmdp.QuickMDP.actions', 'msdm.core.mdp.quickmdp.QuickMDP.initial_state_dist', 'msdm.core.mdp.quickmdp.QuickMDP.is_absorbing',
    'msdm.core.mdp.tables.StateActionNextStateTable.from_state_action_lists', 'msdm.core.mdp.tables.StateActionTable.from_state_action_lists',
    'msdm.core.utils.funcutils.cached_property', 'msdm.core.utils.funcutils.method_cache',
]
ASSUMPTIONS = [
    'floats are mathematical reals; probabilities strictly positive on the skeleton support, exactly 0 on listed zero entries',
    'object-dtype numpy structural operations behave as float-dtype ones; scipy floyd_warshall is the real routine (run on the forked concrete adjacency)',
    'tier B: skeleton family of props/C06.py (<=4 states, mixed hashable kinds, explicit/inferred lists, zero-probability entries)',
    'set iteration order is whatever CPython gives in this process (order-independence is a C13 obligation)',
]
LEMMAS = ['reach_M is the least set containing the initial support and closed under positive-probability successors of non-absorbing members (definition)']
NOT_DECIDED = ['skeletons beyond the stated family']
EXPLANATION = 'C06: every array/table/list property of TabularMarkovDecisionProcess, from_matrices round trip and Quick wrappers against the functional interface.'


def spec_reach(sk):
    """least fixpoint: initial support, closed under positive-probability successors of members that are not
    (explicitly) absorbing"""
    R = set(sk.init)
    changed = True
    while changed:
        changed = False
        for s in list(R):
            if s in sk.absorbing:
                continue
            for a in sk.actions.get(s, ()):
                for n in sk.supp[(s, a)]:
                    if n not in R:
                        R.add(n)
                        changed = True
    return R


def family(tier, seed):
    F = list(M.family_basic(tier, seed))
    fd = None
    try:
        from frozendict import frozendict
        fd = frozendict
    except Exception:
        pass
    # zero-probability entry towards a state that is NOT reachable (hence not in the inferred state list)
    F.append(Skel('z3-zero-outside', ['s', 'g', 'ghost'], {'s': ('a',), 'g': ('a',), 'ghost': ('a',)},
                  {('s', 'a'): ('s', 'g'), ('g', 'a'): ('g',), ('ghost', 'a'): ('ghost',)},
                  absorbing=['g'], init=['s'], zero_prob={('s', 'a'): ('ghost',)}))
    # absorbing INITIAL state whose successors must not be expanded; unsortable mixed keys
    F.append(Skel('m4-mixed-absorbing-init', [0, 'a', (1, 2), None], {0: ('x',), 'a': ('x', 'y'), (1, 2): ('x',), None: ('x',)},
                  {(0, 'x'): ('a', 0), ('a', 'x'): ('a', None), ('a', 'y'): (None,), ((1, 2), 'x'): ((1, 2),), (None, 'x'): (None, 'a')},
                  absorbing=[0, None], init=[0, 'a']))
    # an absorbing state whose successor lies outside the reachable set (F14)
    F.append(Skel('k3i-absorbing-initial-successor-outside', ['s', 'g', 'h'], {'s': ('a',), 'g': ('a',), 'h': ('a',)},
                  {('s', 'a'): ('g', 's'), ('g', 'a'): ('h',), ('h', 'a'): ('h',)}, absorbing=['g'], init=['g', 's']))
    F.append(Skel('k3-absorbing-successor-outside', ['s', 'g', 'h'], {'s': ('a',), 'g': ('a',), 'h': ('a',)},
                  {('s', 'a'): ('g', 's'), ('g', 'a'): ('h',), ('h', 'a'): ('h',)}, absorbing=['g'], init=['s']))
    # explicit lists that contain an unreachable state, in a non-sorted order
    F.append(Skel('e3-explicit-lists', ['z', 'b', 'm'], {'z': ('r', 'l'), 'b': ('l',), 'm': ('r',)},
                  {('z', 'r'): ('b', 'z'), ('z', 'l'): ('z',), ('b', 'l'): ('b',), ('m', 'r'): ('z',)},
                  absorbing=['b'], init=['z'], action_order=['r', 'l'], explicit_lists=True))
    # an EXPLICITLY absorbing state that offers no action at all (its flag must not be confused with a dead end), and a true dead end next to it
    F.append(Skel('a3-absorbing-without-actions', ['s', 'g', 'd'], {'s': ('a', 'b'), 'g': (), 'd': ()},
                  {('s', 'a'): ('g', 's'), ('s', 'b'): ('d',)}, absorbing=['g'], init=['s']))
    if fd is not None:
        a, b = fd({'x': 0}), fd({'x': 1})
        F.append(Skel('f2-frozendict', [a, b], {a: ('go',), b: ('go',)}, {(a, 'go'): (a, b), (b, 'go'): (b,)}, absorbing=[b], init=[a]))
    return F


def h_arrays(sk, numeric, gamma, kind):
    """all array / table / list views of the real TabularMarkovDecisionProcess against the functional definition"""
    mdp, v = M.make_mdp(sk, gamma=gamma, numeric=numeric, kind=kind, reward_sign='nonpos' if gamma == 'one' else None)
    with M.facades():
        sl = list(mdp.state_list)
        al = list(mdp.action_list)
        if sk.explicit_lists:
            S.check('state_list:explicit-list-kept-as-given', S.truth(sl == list(sk.states) and al == list(sk.action_list)))
        else:
            R = spec_reach(sk)
            S.check('state_list:equals-reachable-set-no-duplicates', S.truth(len(sl) == len(set(sl)) and set(sl) == R))
            aset = {a for s in R for a in sk.actions.get(s, ())}
            S.check('action_list:union-of-available-actions-no-duplicates', S.truth(len(al) == len(set(al)) and set(al) == aset))
            try:
                srt = sorted(R)
                S.check('state_list:sorted-when-sortable', S.truth(sl == srt))
            except TypeError:
                pass
        tf, am, rf, sarf, s0 = mdp.transition_matrix, mdp.action_matrix, mdp.reward_matrix, mdp.state_action_reward_matrix, mdp.initial_state_vec
        ok_t, ok_a, ok_r, ok_sa, ok_0 = [], [], [], [], []
        for i, s in enumerate(sl):
            ok_0.append(S.eq(s0[i], v.p0.get(s, 0)))
            for j, a in enumerate(al):
                avail = a in sk.actions.get(s, ())
                ok_a.append(S.eq(am[i, j], 1 if avail else 0))
                tot = 0
                for k, n in enumerate(sl):
                    t = M.spec_T(v, s, a, n) if avail else 0
                    ok_t.append(S.eq(tf[i, j, k], t))
                    positive = avail and (n in sk.supp.get((s, a), ()))
                    r = v.R[(s, a, n)] if positive else 0
                    ok_r.append(S.eq(rf[i, j, k], r))
                    if positive:
                        tot = tot + v.T[(s, a, n)] * v.R[(s, a, n)]
                ok_sa.append(S.eq(sarf[i, j], tot))
        S.check('transition_matrix:equals-next_state_dist;zero-rows-if-unavailable', S.And(ok_t))
        S.check('action_matrix:equals-availability', S.And(ok_a))
        S.check('reward_matrix:equals-reward-where-probability-positive', S.And(ok_r))
        S.check('state_action_reward_matrix:is-expected-reward', S.And(ok_sa))
        S.check('initial_state_vec:equals-initial_state_dist', S.And(ok_0))
        S.check('arrays:read-only', S.truth(not any(x.flags.writeable for x in (tf, am, rf, sarf, s0))))
        ab = mdp.absorbing_state_vec
        de = mdp.dead_end_state_vec
        S.check('absorbing_state_vec:explicit-or-(all-actions-self-loop-with-zero-reward)',
                S.And([S.Iff(S.truth(ab[i]), M.spec_abs(v, s)) for i, s in enumerate(sl)]))
        S.check('dead_end_state_vec:no-available-action', S.And([S.truth(bool(de[i]) == (len(sk.actions.get(s, ())) == 0)) for i, s in enumerate(sl)]))
        un = mdp._unable_to_reach_absorbing
        if gamma == 'one':
            can = M.spec_can_reach_abs(v)
            S.check('_unable_to_reach_absorbing:no-positive-probability-path-to-an-absorbing-state',
                    S.And([S.Iff(S.truth(un[i]), S.Not(can[s])) for i, s in enumerate(sl)]))
        else:
            S.check('_unable_to_reach_absorbing:all-false-when-discounted', S.truth(not np.asarray(un).any()))
        rs = mdp.reachable_state_vec
        S.check('reachable_state_vec:membership-in-reachable-set', S.truth([bool(x) for x in rs] == [s in spec_reach(sk) for s in sl]))
        # tables index like the arrays
        tt, rt, srt_ = mdp.transition_table, mdp.reward_table, mdp.state_action_reward_table
        okt = []
        for i, s in enumerate(sl):
            for j, a in enumerate(al):
                okt.append(S.eq(srt_[s][a], sarf[i, j]))
                for k, n in enumerate(sl):
                    okt.append(S.eq(tt[s][a][n], tf[i, j, k]))
                    okt.append(S.eq(rt[s, a, n], rf[i, j, k]))
        S.check('tables:cells-are-the-array-cells-under-the-state/action-index', S.And(okt))
        S.check('mustfail:transition_matrix-transposed', S.And(
            [S.eq(tf[k, j, i], M.spec_T(v, s, a, n) if a in sk.actions.get(s, ()) else 0)
             for i, s in enumerate(sl) for j, a in enumerate(al) for k, n in enumerate(sl)]) if len(sl) > 1 and any(len(x) > 1 for x in sk.supp.values()) else S.false())


def h_roundtrip(sk, numeric, gamma):
    """from_matrices(arrays of M) and QuickTabularMDP(functions of M) have identical arrays, lists and discount"""
    mdp, v = M.make_mdp(sk, gamma=gamma, numeric=numeric)
    with M.facades(qm):
        m2 = tm.TabularMarkovDecisionProcess.from_matrices(
            state_list=mdp.state_list, action_list=mdp.action_list, initial_state_vec=mdp.initial_state_vec,
            transition_matrix=mdp.transition_matrix, action_matrix=mdp.action_matrix, reward_matrix=mdp.reward_matrix,
            absorbing_state_vec=mdp.absorbing_state_vec, discount_rate=mdp.discount_rate)
        m3 = qm.QuickTabularMDP(next_state_dist=mdp.next_state_dist, reward=mdp.reward, actions=mdp.actions,
                                initial_state_dist=mdp.initial_state_dist, is_absorbing=mdp.is_absorbing, discount_rate=mdp.discount_rate)
        for nm, m in (('from_matrices', m2), ('QuickTabularMDP', m3)):
            if nm == 'QuickTabularMDP' and sk.explicit_lists:
                continue     # the quick constructors cannot carry explicit lists: clause stated for inferred lists only
            same = [S.truth(list(m.state_list) == list(mdp.state_list)), S.truth(list(m.action_list) == list(mdp.action_list)),
                    S.eq(m.discount_rate, mdp.discount_rate)]
            S.check('%s:lists-and-discount-identical' % nm, S.And(same))
            cells = []
            for arr in ('transition_matrix', 'reward_matrix', 'action_matrix', 'state_action_reward_matrix', 'initial_state_vec'):
                A, B = getattr(m, arr), getattr(mdp, arr)
                S.check('%s:%s-same-shape' % (nm, arr), S.truth(A.shape == B.shape))
                for idx in np.ndindex(*B.shape):
                    cells.append(S.eq(A[idx], B[idx]))
            S.check('%s:arrays-identical' % nm, S.And(cells))
            S.check('%s:absorbing-identical' % nm, S.And([S.Iff(S.truth(x), S.truth(y)) for x, y in zip(m.absorbing_state_vec, mdp.absorbing_state_vec)]))


def h_quick_variants(sk):
    """QuickMDP constructor variants: constant reward / constant actions / next_state= / initial_state= / distribution object"""
    from msdm.core.distributions import DictDistribution, DeterministicDistribution
    r = S.real('r')
    g = S.real('g', 0, 1, lo_strict=True)
    acts = tuple(sk.action_list)
    nxt = {(s, a): sk.supp[(s, a)][0] if (s, a) in sk.supp else s for s in sk.states for a in acts}
    init = sk.init[0]
    m = qm.QuickMDP(next_state=lambda s, a: nxt[(s, a)], reward=r, actions=acts, initial_state=init,
                    is_absorbing=lambda s: s in sk.absorbing, discount_rate=g)
    ok = [S.eq(m.discount_rate, g)]
    for s in sk.states:
        ok.append(S.truth(tuple(m.actions(s)) == acts))
        ok.append(S.truth(m.is_absorbing(s) == (s in sk.absorbing)))
        for a in acts:
            d = m.next_state_dist(s, a)
            ok.append(S.truth(list(d.support) == [nxt[(s, a)]] and d.prob(nxt[(s, a)]) == 1))
            ok.append(S.eq(m.reward(s, a, nxt[(s, a)]), r))
    d0 = m.initial_state_dist()
    ok.append(S.truth(list(d0.support) == [init] and d0.prob(init) == 1))
    S.check('QuickMDP:deterministic-and-constant-variants-return-what-was-given', S.And(ok))
    dist = DictDistribution({init: 1.0})
    m2 = qm.QuickMDP(lambda s, a: DeterministicDistribution(nxt[(s, a)]), reward=lambda s, a, ns: r * 2, actions=lambda s: acts[:1],
                     initial_state_dist=dist, is_absorbing=lambda s: False, discount_rate=g)
    S.check('QuickMDP:callable-variants-return-what-was-given', S.And(
        [S.truth(m2.initial_state_dist() is dist), S.truth(tuple(m2.actions(sk.states[0])) == acts[:1]),
         S.eq(m2.reward(sk.states[0], acts[0], sk.states[0]), 2 * r), S.truth(m2.is_absorbing(sk.states[0]) is False)]))


def h_reach_cutoff(sk, k):
    mdp, v = M.make_mdp(sk, numeric='generic')
    with M.facades():
        res = mdp.reachable_states(max_states=k)
        full = spec_reach(sk)
        S.check('reachable_states(max_states):initial-support<=result<=reachable-set', S.truth(set(sk.init) <= set(res) <= full))
        if k >= len(full) + 1:
            S.check('reachable_states(max_states>=|reach|):equals-reachable-set', S.truth(set(res) == full))
        res2 = mdp.reachable_states(max_states=k)
        S.check('method_cache:second-call-returns-first-result', S.truth(res2 is res))


def rt_random(seed, n):
    """R: random concrete MDP definitions (random support graphs incl. zero-probability entries) -> same clauses"""
    import random
    rnd = random.Random(seed)
    out = []
    for k in range(n):
        ns = rnd.choice([1, 2, 3, 4, 5])
        st = rnd.sample([0, 1, 2, 3, 4, 'a', 'b', (0, 1), (1, 0), None], ns) if rnd.random() < .5 else list(range(ns))
        acts = {s: tuple(rnd.sample(['u', 'v', 'w'], rnd.choice([1, 2, 3]))) for s in st}
        supp = {(s, a): tuple(rnd.sample(st, rnd.randint(1, min(3, ns)))) for s in st for a in acts[s]}
        absb = [s for s in st if rnd.random() < .25]
        for s in absb:      # well-formed definitions: absorbing states only lead to listed states (see F14 for the other case)
            for a in acts[s]:
                supp[(s, a)] = (s,)
        zp = {}
        for (s, a), sup in supp.items():
            rest = [x for x in st if x not in sup]
            if rest and rnd.random() < .3:
                zp[(s, a)] = (rnd.choice(rest),)
        init = rnd.sample(st, rnd.randint(1, min(2, ns)))
        sk = Skel('rt%d' % k, st, acts, supp, absorbing=absb, init=init, zero_prob=zp)
        g = rnd.choice([0.9, 0.5, 'one'])
        for h, args in ((h_arrays, (sk, 'sym', g, rnd.choice(['dict', 'det']))), (h_roundtrip, (sk, 'sym', g if g != 'one' else 0.7))):
            rp = S.run_concrete(h, args, {}, rng=rnd)
            for c in rp['checks']:
                if c['name'].startswith('mustfail'):
                    continue
                out.append(dict(name='rt:' + c['name'], ok=c['status'] == 'proved', detail=str(c.get('detail'))[:800],
                                witness=dict(skel=dict(states=repr(st), actions=repr(acts), supp=repr(supp), zero=repr(zp), absorbing=repr(absb), init=repr(init)),
                                             gamma=g, inputs=rp.get('inputs'))))
    return out


def tasks(tier, seed):
    T = []
    fam = family(tier, seed)
    for sk in fam:
        for numeric in ('sym', 'generic'):
            T.append(Task('arrays/%s/%s' % (sk.name, numeric), h_arrays, (sk, numeric, 'sym', 'dict'), tier='B',
                          expect_fail=('mustfail:transition_matrix-transposed',)))
        T.append(Task('arrays/%s/det-kind' % sk.name, h_arrays, (sk, 'generic', 'sym', 'det'), tier='B', expect_fail=('mustfail:transition_matrix-transposed',)))
        T.append(Task('roundtrip/%s' % sk.name, h_roundtrip, (sk, 'generic', 'sym'), tier='B'))
        T.append(Task('quick/%s' % sk.name, h_quick_variants, (sk,), tier='B'))
        for k in (1, 2, len(sk.states) + 1):
            T.append(Task('reach-cutoff/%s/k%d' % (sk.name, k), h_reach_cutoff, (sk, k), tier='B'))
    for sk in M.family_undiscounted(tier):
        T.append(Task('arrays/undiscounted/%s' % sk.name, h_arrays, (sk, 'generic', 'one', 'dict'), tier='B', expect_fail=('mustfail:transition_matrix-transposed',)))
    T.append(Task('rt/random-definitions', rt_random, (seed, 40 if tier == 'quick' else 300), tier='R', kind='rt'))
    return T


MANIFEST_ENTRY = dict(
    category='other',
    text=('Contracts on every array/table/list view of TabularMarkovDecisionProcess, reachable_states (with cut-off), from_matrices and the '
          'Quick wrappers, discharged by z3 for all probabilities/rewards/discounts over a bounded family of MDP definitions (mixed hashable '
          'state kinds, explicit/inferred lists, zero-probability entries, absorbing initial states); plus a run-time tier over random definitions.'),
    note='Bounded skeleton family (tier B), floats as reals, set order as given by CPython; planners consuming the arrays are covered by C01/C02.',
)
END_MANIFEST_ENTRY = True


SENTINELS = globals().get('SENTINELS', []) + [
    Sentinel('reachability-expands-absorbing-states', 'msdm.core.mdp.mdp', '                    if ns not in visited and not self.is_absorbing(ns):\n',
             '                    if ns not in visited:\n', ['re:^arrays/k3-absorbing-successor-outside']),
    Sentinel('reward-matrix-negated', 'msdm.core.mdp.tabularmdp', '                    rf[si, ai, nsi] = self.reward(s, a, ns)',
             '                    rf[si, ai, nsi] = -self.reward(s, a, ns)', ['re:^arrays/s3-branch']),
]
