"""C13 -- a fixed seed makes every randomised component reproducible and isolated.

Reproducibility is a frame / non-interference contract: the result is a function of (problem, parameters, seed) only, and nothing ambient is read or written.
 * symbolic tier (B): the real components run under a DEMONIC private generator while every process-global generator (`random` module functions) is a tripwire;
   the obligation "no ambient generator is touched" is proved on every explored history of the harnesses of C03, C04, C05, C10, C14, C15, C17 (same skeleton families).
   Given that frame, determinism for a fixed seed holds by construction: CPython is deterministic and the only entropy reaching the code is the private generator.
 * run-time tier (R): separate processes with different PYTHONHASHSEED and different prior states of the global random / numpy / torch generators run every component
   on a problem whose states, actions and option names are strings; canonical results must be identical and the three global generator states unchanged.
"""
import os, sys, json, subprocess, itertools, contextlib
from symrun import core as S
from symrun.driver import Task, Sentinel, ROOT
from specs import mdpspec as M
from specs import pomdpspec as P

FILES = ['msdm/algorithms/laostar.py', 'msdm/algorithms/lrtdp.py', 'msdm/algorithms/search.py', 'msdm/algorithms/tdlearning.py', 'msdm/algorithms/rmax.py',
         'msdm/algorithms/fscboundedpolicyiteration.py', 'msdm/algorithms/fscgradientascent.py', 'msdm/core/semimdp/semimdp.py', 'msdm/core/distributions/utils.py',
         'msdm/core/distributions/distributions.py', 'msdm/core/mdp/policy.py', 'msdm/core/pomdp/policy.py']
FUNCTIONS = ['msdm.algorithms.laostar.LAOStar.plan_on', 'msdm.algorithms.lrtdp.LRTDP.plan_on', 'msdm.algorithms.search.AStarSearch.plan_on', 'msdm.algorithms.search.BreadthFirstSearch.plan_on',
             'msdm.algorithms.tdlearning.TemporalDifferenceLearning.train_on', 'msdm.algorithms.rmax.RMAX.train_on',
             'msdm.algorithms.fscboundedpolicyiteration.FSCBoundedPolicyIteration.__init__', 'msdm.algorithms.fscboundedpolicyiteration.FSCBoundedPolicyIteration.train_on',
             'msdm.algorithms.fscgradientascent.FSCGradientAscent.__init__', 'msdm.algorithms.fscgradientascent.FSCGradientAscent.train_on',
             'msdm.core.semimdp.semimdp.SemiMarkovDecisionProcess.run_simulations', 'msdm.core.distributions.utils.obj_seed',
             'msdm.core.distributions.distributions.ImplicitDistribution._rng', 'msdm.core.distributions.distributions.ImplicitDistribution.sample',
             'msdm.core.distributions.distributions.ImplicitDistribution._monte_carlo_simulation', 'msdm.core.distributions.distributions.FiniteDistribution.sample',
             'msdm.core.mdp.policy.Policy.run_on', 'msdm.core.mdp.policy.Policy.evaluate_on', 'msdm.core.pomdp.policy.POMDPPolicy.run_on']
ASSUMPTIONS = [
    'CPython executes deterministically: with no ambient entropy read, equal private-generator draws give equal results (determinism by construction once the frame obligation holds)',
    'numpy / torch global generators are not instrumented in the symbolic tier (only the `random` module is a tripwire there); they are compared before/after in the process-level run-time tier',
    'set iteration order and hash randomisation are exercised by separate processes with PYTHONHASHSEED in {0,1,2,3} (quick) / 8 values (thorough), results compared as canonically sorted mappings',
    'seed=None branches are outside the property (they draw from system entropy by design)',
]
LEMMAS = []
NOT_DECIDED = ['reproducibility across library versions or platforms', "torch kernels' internal determinism"]
EXPLANATION = 'C13: frame obligation (no ambient generator touched) on every explored history of the randomised components + cross-process comparison under different hash seeds and ambient generator states.'

FRAME_PAT = ('only-the-private-seeded-generator', 'draws-only-from-the-supplied-generator', 'no-ambient-generator')


def frame_only(h):
    """run a harness of another property but keep only its frame obligations"""
    def wrapped(*args):
        orig = S.check

        def chk(name, clause, detail=None):
            if any(p in name for p in FRAME_PAT):
                return orig('frame:' + name, clause, detail)
            return True
        mods = [sys.modules[m] for m in list(sys.modules) if m.startswith('props.C')]
        saved = [(m, m.S.check) for m in mods if hasattr(m, 'S')]
        S.check = chk
        try:
            return h(*args)
        finally:
            S.check = orig
    wrapped.__name__ = 'frame_only_' + getattr(h, '__name__', 'h')
    return wrapped


def h_implicit(n, seeded):
    """ImplicitDistribution with a seed draws only from its own private generator; two equally seeded instances see the same draws"""
    from symrun.patch import patched
    from symrun.rngf import Tripwire, DemonicRng
    import msdm.core.distributions.distributions as dd
    uses = []
    trip = Tripwire('random', uses, private_budget=40)
    with patched((dd, dict(random=trip))):
        log = []

        def f(rng):
            x = rng.choice(['x', 'y'])
            log.append(x)
            return x
        d = dd.ImplicitDistribution(f, n_samples=n, _seed=19 if seeded else None)
        items = dict(d.items())
        S.check('ImplicitDistribution:items-are-the-empirical-frequencies-of-its-own-samples', S.truth(
            abs(sum(items.values()) - 1) < 1e-12 and all(abs(items[k] - log.count(k) / n) < 1e-12 for k in items) and len(log) == n))
        m = d.marginalize(lambda e: e.upper())
        S.check('ImplicitDistribution.marginalize/condition:keep-the-seed-and-sample-count', S.truth(m._seed == d._seed and m.n_samples == n and d.condition(lambda e: True)._seed == d._seed))
        if seeded:
            S.check('frame:ImplicitDistribution:only-the-private-seeded-generator-is-used', S.truth(not [u for u in uses if 'Random' not in u]), detail=repr(uses))
        else:
            S.check('ImplicitDistribution:unseeded-instance-asks-for-system-entropy(outside-the-property)', S.truth(any('system entropy' in u for u in uses)))


def rt_processes(seed, hash_seeds, ambients):
    """separate interpreter processes: PYTHONHASHSEED x prior state of the global generators"""
    out = []
    probe = os.path.join(ROOT, 'tools', 'c13_probe.py')
    runs = {}
    for hs in hash_seeds:
        for amb in ambients:
            env = dict(os.environ, PYTHONHASHSEED=str(hs), PYTHONPATH=os.environ.get('VERIF_REPO', '/repo'), PYTHONWARNINGS='ignore', OMP_NUM_THREADS='1')
            p = subprocess.run(['/venv/bin/python', probe, str(amb)], capture_output=True, text=True, env=env, timeout=900)
            if p.returncode != 0:
                out.append(dict(name='rt:probe-process-ran', ok=False, detail=p.stderr[-800:], witness=dict(hashseed=hs, ambient=amb)))
                continue
            runs[(hs, amb)] = json.loads(p.stdout.strip().split('\n')[-1])
    if not runs:
        return out
    ref_key = sorted(runs)[0]
    ref = runs[ref_key]
    for comp in sorted(k for k in ref if not k.endswith('::ambient-untouched')):
        same = all(r.get(comp) == ref[comp] for r in runs.values())
        diff = [k for k, r in runs.items() if r.get(comp) != ref[comp]]
        out.append(dict(name='rt:%s:identical-results-for-the-same-seed-across-processes(hash-seeds,ambient-generator-states)' % comp, ok=same,
                        witness=dict(reference=ref_key, differing=diff[:4], ref=json.dumps(ref[comp])[:400], other=json.dumps(runs[diff[0]].get(comp))[:400] if diff else None)))
        def holds(x, path=''):
            bad = []
            if isinstance(x, dict):
                for k_, v_ in x.items():
                    if str(k_).startswith('holds:'):
                        if v_ is not True:
                            bad.append(path + '/' + str(k_))
                    else:
                        bad += holds(v_, path + '/' + str(k_))
            return bad
        bad = sorted({b_ for r in runs.values() for b_ in holds(r.get(comp))})
        if any('holds:' in json.dumps(r.get(comp)) for r in runs.values()):
            out.append(dict(name='rt:%s:sequence-clauses(several-derived-objects,parent-used-first,explicit-generator)-hold-in-every-process' % comp, ok=not bad,
                            witness=dict(component=comp), detail='; '.join(bad)))
        unt = all(r.get(comp + '::ambient-untouched') is True for r in runs.values())
        out.append(dict(name='rt:%s:global-random/numpy/torch-generators-are-not-disturbed' % comp, ok=unt, witness=dict(component=comp)))
    return out


def rt_semimdp_fixed_seeds(seed, n):
    """the fixed-seed clauses (0 included) of the semi-MDP consistency run; the unseeded clause belongs to C15, not to this property"""
    from props import C15
    return [r for r in C15.rt_semimdp_consistency(seed, n) if 'fixed-seed' in r['name']]


def tasks(tier, seed):
    import props.C03 as C03, props.C04 as C04, props.C05 as C05, props.C10 as C10, props.C14 as C14, props.C15 as C15, props.C17 as C17
    T = []
    # frame obligations harvested from the harnesses of the component properties (every explored history)
    l3 = C03.skeletons(tier)[0]
    for ra, rn in ((True, True), (False, False)):
        T.append(Task('frame/LAOStar/%s' % ('random-orders' if ra else 'fixed-orders'), frame_only(C03.h_lao), (l3, ra, rn, 'exact'), tier='B', max_paths=6000, deadline_s=400))
    d3 = C04.dags(tier)[0]
    for sh in (True, False):
        T.append(Task('frame/LRTDP/%s' % ('shuffle' if sh else 'ordered'), frame_only(C04.h_lrtdp), (d3, sh, 'slack', False, 50), tier='B', max_paths=6000, deadline_s=400))
    d3i = C04.dags(tier)[1]
    T.append(Task('frame/LRTDP/multi-state-initial-distribution', frame_only(C04.h_lrtdp), (d3i, True, 'exact', False, 5), tier='B', max_paths=6000, deadline_s=400))
    g = [x for x in C05.family(tier, seed) if x.name == 'diamond'][0]
    for tie in ('lifo', 'random'):
        T.append(Task('frame/AStar/%s' % tie, frame_only(C05.h_astar), (g, 'dictdist', tie, True), tier='B', max_paths=6000))
    T.append(Task('frame/BFS', frame_only(C05.h_bfs), (g, 'dictdist', True), tier='B'))
    e3 = C10.episodic(tier)[1]
    for algo in ('QLearning', 'SARSA', 'ExpectedSARSA', 'DoubleQLearning'):
        T.append(Task('frame/%s' % algo, frame_only(C10.h_td), (algo, e3, 'default', 1, False, 8), tier='B', max_paths=6000, deadline_s=400))
    T.append(Task('frame/RMAX', frame_only(C17.h_train), (C17.episodic()[1], 1, 1, 12), tier='B', max_paths=8000, deadline_s=400))
    s3 = M.basic('s3-branch')
    T.append(Task('frame/Policy.run_on', frame_only(C14.h_run_on), (s3, 'full', 'sampled', 2, seed), tier='B'))
    T.append(Task('frame/Policy.run_on/tabular-policy', frame_only(C14.h_run_on), (s3, 'full-tab', 'sampled', 2, seed), tier='B', note='action_dist is a row of a probability table'))
    T.append(Task('frame/Policy.evaluate_on', frame_only(C14.h_evaluate_on), (s3, 'full', 2, 2, seed), tier='B', max_paths=4000))
    pf = [x for x in P.family(tier, seed) if x.name == 'p222-falsy-labels'][0]
    for kind in ('belief', 'fsc'):
        T.append(Task('frame/POMDPPolicy.run_on/%s' % kind, frame_only(C14.h_pomdp_run_on), (pf, kind, 2, False, False, seed), tier='B', max_paths=4000))
    T.append(Task('frame/Option.run_on', frame_only(C15.h_option_run), (C15.corridor(), 'mixed', (4,), 0, 4), tier='B', max_paths=5000))
    T.append(Task('frame/SemiMDP.option-simulation', frame_only(C15.h_semimdp), (C15.corridor(), 'mixed', (4,), 1, 2, False), tier='B', max_paths=6000))
    T.append(Task('frame/SemiMDP.option-simulation/seed0', frame_only(C15.h_semimdp), (C15.corridor(), 'mixed', (4,), 1, 2, False, 0), tier='B', max_paths=6000, note='0 is a fixed seed'))
    T.append(Task('rt/semimdp-fixed-seeds', rt_semimdp_fixed_seeds, (seed, 6 if tier == 'quick' else 40), tier='R', kind='rt'))
    for n in (1, 3):
        for seeded in (True, False):
            T.append(Task('implicit/n%d/%s' % (n, 'seeded' if seeded else 'unseeded'), h_implicit, (n, seeded), tier='B'))
    hs = [0, 1, 2, 3] if tier == 'quick' else [0, 1, 2, 3, 4, 5, 6, 7]
    amb = [0, 5] if tier == 'quick' else [0, 3, 5, 11]
    T.append(Task('rt/processes', rt_processes, (seed, hs, amb), tier='R', kind='rt', deadline_s=1500))
    return T


MANIFEST_ENTRY = dict(
    category='other',
    text=('Reproducibility and isolation as a frame / non-interference contract. Symbolic tier: the real LAO*, LRTDP, A*, BFS, the four TD learners, R-MAX, policy and '
          'POMDP-policy roll-outs, Monte-Carlo evaluation, option execution, semi-MDP option simulation and implicit distributions run under a demonic PRIVATE generator '
          'while the process-global `random` functions are tripwires: on every explored history no ambient generator is touched (so results are a function of the seed). '
          'Run-time tier: all components incl. bounded policy iteration and gradient ascent run in separate processes with different PYTHONHASHSEED and ambient '
          'random/numpy/torch states on a string-labelled problem: identical canonical results, global generator states unchanged.'),
    note='Bounded histories/skeletons (tier B); numpy/torch global generators and hash randomisation only at process level (bounded set of hash seeds); cross-version reproducibility not decided.',
)
END_MANIFEST_ENTRY = True


SENTINELS = globals().get('SENTINELS', []) + [
    Sentinel('roll-out-samples-the-next-state-from-the-ambient-generator', 'msdm.core.mdp.policy', "            ns = mdp.next_state_dist(s, a).sample(rng=rng)\n",
             "            ns = mdp.next_state_dist(s, a).sample()\n", ['frame/Policy.run_on']),
    Sentinel('semi-mdp-seed-0-treated-as-unseeded', 'msdm.core.semimdp.semimdp', "        if self.seed is None:\n", "        if not self.seed:\n", ['rt/semimdp-fixed-seeds']),
]
