"""C15 -- augmented sub-tasks, options and the semi-MDP."""
import math, itertools, random as _random, contextlib
from fractions import Fraction
import numpy as np
from symrun import core as S
from symrun.driver import Task, Sentinel
from symrun.patch import patched
from symrun.rngf import DemonicRng, Tripwire
from specs import mdpspec as M
from specs.mdpspec import Skel

import msdm.core.semimdp.option as opt
import msdm.core.semimdp.semimdp as smdp
import msdm.core.mdp.policy as pol
import msdm.core.distributions.distributions as dd
import msdm.core.distributions.dictdistribution as dct
from msdm.core.distributions import DictDistribution
from msdm.core.exceptions import AlgorithmException
from msdm.core.mdp.quickmdp import QuickMDP

FILES = ['msdm/core/semimdp/option.py', 'msdm/core/semimdp/semimdp.py']
FUNCTIONS = ['msdm.core.semimdp.option.augment', 'msdm.core.semimdp.option.Option.run_on', 'msdm.core.semimdp.option.PlanToSubgoalOption.__init__',
             'msdm.core.semimdp.option.PlanToSubgoalOption.is_initial', 'msdm.core.semimdp.option.PlanToSubgoalOption.is_terminal',
             'msdm.core.semimdp.option.PlanToSubgoalOption.sub_task', 'msdm.core.semimdp.option.PlanToSubgoalOption.planning_result',
             'msdm.core.semimdp.option.PlanToSubgoalOption.policy',
             'msdm.core.semimdp.semimdp.SemiMarkovDecisionProcess.actions', 'msdm.core.semimdp.semimdp.SemiMarkovDecisionProcess.next_state_transit_time_reward_dist',
             'msdm.core.semimdp.semimdp.SemiMarkovDecisionProcess.next_state_transit_time_dist', 'msdm.core.semimdp.semimdp.SemiMarkovDecisionProcess.next_state_dist',
             'msdm.core.semimdp.semimdp.SemiMarkovDecisionProcess.expected_cumulative_reward', 'msdm.core.semimdp.semimdp.SemiMarkovDecisionProcess.run_simulations',
             'msdm.core.semimdp.semimdp.SemiMarkovDecisionProcess.initial_state_dist']
ASSUMPTIONS = [
    "tier U: the base MDP's components are uninterpreted (tokens / z3 functions of atoms), so a clause at arbitrary atoms holds for every state, action and successor of every base MDP; sub-goal and initiation sets are uninterpreted membership predicates; DictDistribution.uniform is stubbed (C11 decides it); Option.run_on is verified against the tier-U postcondition of Policy.run_on (C14) instead of its body, builtin len of the roll-out is its step count + 1 (SimulationResult.__len__)",
    'augment: complete case analysis over all 2^5 subsets of overridden functional components (x list overrides for tabular bases), base components symbolic (values identified as terms)',
    'demonic generator for option roll-outs: every sampled history up to the option step limit (<=4) is explored',
    'tier B: MDP skeleton families incl. a base-absorbing state that the option does not declare terminal; simulation counts <=2',
    'floats are mathematical reals',
]
LEMMAS = []
NOT_DECIDED = ['option step limits / simulation counts beyond the bound']
EXPLANATION = 'C15: augment component-wise equality (incl. discount and lists), Option.run_on stop rule, sub_task clipping, semi-MDP outcome distribution = empirical distribution of its own simulations.'

COMPONENTS = ['initial_state_dist', 'actions', 'next_state_dist', 'reward', 'is_absorbing']


@contextlib.contextmanager
def facades(uses):
    trip = Tripwire('random', uses)
    if not S.symbolic():
        with patched((pol, dict(random=trip)), (opt, dict(random=trip)), (smdp, dict(random=trip)), (dd, dict(random=trip)), (dct, dict(random=trip))):
            yield
        return
    with M.facades(), patched((pol, dict(random=trip)), (opt, dict(random=trip)), (smdp, dict(random=trip)), (dd, dict(random=trip)), (dct, dict(random=trip))):
        yield


def corridor():
    """0 -> 1 -> 2(base goal, absorbing) -> 3 -> 4(sub-goal); stochastic stay"""
    return Skel('corridor', [0, 1, 2, 3, 4], {s: ('r', 'l') for s in range(5)},
                {**{(s, 'r'): ((s + 1, s) if s < 4 else (4,)) for s in range(5)}, **{(s, 'l'): ((s - 1,) if s > 0 else (0,)) for s in range(5)}},
                absorbing=[2], init=[0, 1])


def h_augment_arrays(sk, base_kind, mask):
    """the ARRAY views of a derived MDP follow ITS OWN components -- also when the base's arrays were built (and cached on the base object) before the
    derivation: a planner run on the base first must not change what a planner sees on the derived MDP.  Compared with the arrays of the same derivation of a
    fresh, never-queried twin of the base (same symbolic leaves).  Masks without action / transition overrides only (the others change the array shapes)."""
    assert not mask & (2 | 4)
    def build():
        mdp, v = M.make_mdp(sk, gamma='sym', numeric='generic', nseed=4)
        if base_kind == 'instance-discount':
            mdp.discount_rate = v.gamma
        return mdp, v
    states = list(sk.states)
    rO = S.real('override_reward')
    over = {}
    if mask & 1:
        d0 = DictDistribution({states[-1]: 1.0})
        over['initial_state_dist'] = lambda: d0
    if mask & 8:
        over['reward'] = lambda s, a, ns: rO
    if mask & 16:
        over['is_absorbing'] = lambda s: s == states[0]
    names = ('transition_matrix', 'reward_matrix', 'state_action_reward_matrix', 'absorbing_state_vec', 'initial_state_vec', 'action_matrix')
    with M.facades():
        warm, v = build()
        for nm in names:                    # e.g. left behind by ValueIteration().plan_on(base)
            getattr(warm, nm)
        warm.reachable_states()
        cold, _ = build()
        a_warm, a_cold = opt.augment(warm, **over), opt.augment(cold, **over)
        for nm in names:
            x, y = np.asarray(getattr(a_warm, nm)), np.asarray(getattr(a_cold, nm))
            S.check('augment:arrays-of-the-derived-MDP-do-not-depend-on-arrays-cached-on-the-base:%s' % nm,
                    S.And([S.truth(x.shape == y.shape)] + [S.eq(p, q) for p, q in zip(x.ravel().tolist(), y.ravel().tolist())] if x.shape == y.shape else [S.false()]))
        # and they are the derived MDP's own: spot clauses against the overrides
        sl, al = list(a_warm.state_list), list(a_warm.action_list)
        if mask & 16:
            S.check('augment:absorbing-vector-follows-the-overriding-predicate', S.And([S.truth(bool(a_warm.absorbing_state_vec[i]) or s != states[0]) for i, s in enumerate(sl)]))
        if mask & 8:
            S.check('augment:reward-matrix-follows-the-overriding-reward', S.And([
                S.eq(a_warm.reward_matrix[sl.index(s), al.index(a), sl.index(n)], rO) for s in states for a in sk.actions.get(s, ()) for n in sk.supp[(s, a)] if n in sl and s in sl]))


def h_augment(sk, base_kind, mask, list_override):
    """every non-overridden component of augment(mdp, ...) equals the base's; overridden ones equal the override"""
    mdp, v = M.make_mdp(sk, gamma='sym', numeric='sym')
    if base_kind == 'quick':
        base = QuickMDP(next_state_dist=mdp.next_state_dist, reward=mdp.reward, actions=mdp.actions, initial_state_dist=mdp.initial_state_dist,
                        is_absorbing=mdp.is_absorbing, discount_rate=v.gamma)
    elif base_kind == 'instance-discount':
        base = mdp
        base.discount_rate = v.gamma          # instance attribute (as the built-in domains set it in __init__)
    elif base_kind == 'augmented':
        # the base is ITSELF a derived MDP whose five components were all supplied as overrides (plain functions): deriving from a derived MDP
        # (e.g. running an option on a sub-task) must preserve them too
        mdp.discount_rate = v.gamma
        base = opt.augment(mdp, initial_state_dist=lambda: mdp.initial_state_dist(), actions=lambda s: mdp.actions(s),
                           next_state_dist=lambda s, a: mdp.next_state_dist(s, a), reward=lambda s, a, ns: mdp.reward(s, a, ns),
                           is_absorbing=lambda s: mdp.is_absorbing(s))
    else:
        base = mdp
    over = {}
    marks = {}
    rO = S.real('override_reward')
    states = list(sk.states)
    if mask & 1:
        d0 = DictDistribution({states[-1]: 1.0})
        over['initial_state_dist'] = lambda: d0
        marks['initial_state_dist'] = d0
    if mask & 2:
        over['actions'] = lambda s: ('only',)
    if mask & 4:
        dn = DictDistribution({states[0]: 1.0})
        over['next_state_dist'] = lambda s, a: dn
        marks['next_state_dist'] = dn
    if mask & 8:
        over['reward'] = lambda s, a, ns: rO
    if mask & 16:
        over['is_absorbing'] = lambda s: s == states[0]
    with M.facades():
        if list_override and base_kind != 'quick':
            over['state_list'] = tuple(reversed(states))
            over['action_list'] = tuple(reversed(sk.action_list)) + ('only',)
        aug = opt.augment(base, **over)
        ok = {}
        ok['initial_state_dist'] = [S.truth(aug.initial_state_dist() is marks['initial_state_dist'])] if mask & 1 else \
            [S.eq(aug.initial_state_dist().prob(s), v.p0.get(s, 0)) for s in states] + [S.truth(set(aug.initial_state_dist().support) == set(v.p0))]
        ok['actions'] = [S.truth(tuple(aug.actions(s)) == (('only',) if mask & 2 else tuple(sk.actions.get(s, ())))) for s in states]
        nd = []
        for s in states:
            for a in sk.actions.get(s, ()):
                d = aug.next_state_dist(s, a)
                if mask & 4:
                    nd.append(S.truth(d is marks['next_state_dist']))
                else:
                    nd += [S.eq(d.prob(n), M.spec_T(v, s, a, n)) for n in states]
        ok['next_state_dist'] = nd
        ok['reward'] = [S.eq(aug.reward(s, a, n), rO if mask & 8 else v.R[(s, a, n)]) for s in states for a in sk.actions.get(s, ()) for n in sk.supp[(s, a)]]
        ok['is_absorbing'] = [S.truth(bool(aug.is_absorbing(s)) == ((s == states[0]) if mask & 16 else (s in sk.absorbing))) for s in states]
        for c in COMPONENTS:
            S.check('augment:%s-%s' % (c, 'is-the-override' if over.get(c) is not None else 'is-the-base-component'), S.And(ok[c]))
        S.check('augment:discount-rate-is-the-base-discount-rate', S.eq(aug.discount_rate, v.gamma))
        if base_kind not in ('quick',):
            if list_override:
                S.check('augment:list-overrides-are-used', S.truth(tuple(aug.state_list) == tuple(reversed(states)) and tuple(aug.action_list) == tuple(reversed(sk.action_list)) + ('only',)))
            else:
                S.check('augment:state-and-action-lists-are-the-base-lists', S.truth(tuple(aug.state_list) == tuple(base.state_list) and tuple(aug.action_list) == tuple(base.action_list)))
        S.check('augment:base-is-not-modified', S.And([S.eq(base.discount_rate, v.gamma), S.truth(tuple(base.actions(states[0])) == tuple(sk.actions.get(states[0], ())))]))


class SimpleOption(opt.Option):
    def __init__(self, policy, terminal_states, max_steps, name='opt', initial_states=None):
        self.policy = policy
        self.name = name
        self.max_steps = max_steps
        self.terminal_states = terminal_states
        self.initial_states = initial_states

    def is_terminal(self, s):
        return s in self.terminal_states

    def is_initial(self, s):
        return True if self.initial_states is None else s in self.initial_states

    def __hash__(self):
        return hash(self.name)


def option_policy(sk, kind):
    if kind == 'right':
        return pol.FunctionalPolicy(lambda s: DictDistribution({'r': 1.0})), {s: {'r': 1.0} for s in sk.states}
    table = {s: {'r': S.const(Fraction(3, 4)), 'l': S.const(Fraction(1, 4))} for s in sk.states}
    return pol.FunctionalPolicy(lambda s: DictDistribution(table[s])), table


def check_option_traj(sk, v, table, steps, start, terminal, prefix):
    body = steps[:-1]
    ok = [S.truth(set(steps[-1].keys()) == {'state'})]
    ok.append(S.truth((body[0]['state'] if body else steps[-1]['state']) == start))
    for t, st in enumerate(body):
        s, a, ns = st['state'], st['action'], st['next_state']
        ok.append(S.truth(s not in terminal))                      # no earlier state is terminal
        ok.append(S.truth(a in table[s] and (s, a) in sk.supp and ns in sk.supp[(s, a)]))
        if (s, a) in sk.supp and ns in sk.supp[(s, a)]:
            ok.append(S.eq(st['reward'], v.R[(s, a, ns)]))
        nxt = body[t + 1]['state'] if t + 1 < len(body) else steps[-1]['state']
        ok.append(S.truth(nxt == ns))
    return ok


def h_option_run(sk, pkind, terminal, start, max_steps):
    mdp, v = M.make_mdp(sk, gamma='sym', numeric='generic')
    mdp.discount_rate = v.gamma
    uses = []
    recorded = []
    with facades(uses):
        policy, table = option_policy(sk, pkind)
        o = SimpleOption(policy, set(terminal), max_steps)
        rng = DemonicRng('rng')
        orig = pol.Policy.run_on

        def spy(self, *a, **k):
            r = orig(self, *a, **k)
            recorded.append(r)
            return r
        pol.Policy.run_on = spy
        try:
            try:
                res = o.run_on(mdp, initial_state=start, rng=rng)
                raised = False
            except AlgorithmException:
                raised = True
                res = None
        finally:
            pol.Policy.run_on = orig
        inner = list(recorded[0].steps)
        k = len(inner) - 1
        if raised:
            S.check('Option.run_on:raises-only-at-its-step-limit', S.truth(k >= max_steps - 1))
        else:
            steps = list(res.steps)
            ok = check_option_traj(sk, v, table, steps, start, set(terminal), 'Option.run_on')
            ok.append(S.truth(steps[-1]['state'] in terminal))        # ends at a terminal state ...
            ok.append(S.truth(len(steps) - 1 < max_steps - 1))
            S.check('Option.run_on:valid-trajectory-that-ends-exactly-at-the-first-terminal-state', S.And(ok))
        S.check('Option.run_on:draws-only-from-the-supplied-generator', S.truth(not uses), detail=repr(uses))


def h_sub_task(sk, subgoals, initial, include_abs, clip):
    mdp, v = M.make_mdp(sk, gamma='sym', numeric='sym')
    mdp.discount_rate = v.gamma
    with M.facades():
        cl = S.real('clip') if clip else float('inf')
        o = opt.PlanToSubgoalOption(mdp=mdp, initial_states=list(initial), subgoals=list(subgoals), planner=None, include_mdp_absorbing_states=include_abs,
                                    name='o1', max_steps=7, max_nonterminal_pseudoreward=cl)
        st = o.sub_task
        okr = []
        triples = [(s, a, n) for s in sk.states for a in sk.actions.get(s, ()) for n in sk.supp[(s, a)]]
        if clip:       # each clipped comparison forks on the symbolic reward: keep the path count small, cover both kinds of successor
            triples = [t for t in triples if t[2] in subgoals][:2] + [t for t in triples if t[2] not in subgoals][:3]
        for (s, a, n) in triples:
            if True:
                if True:
                    base_r = v.R[(s, a, n)]
                    got = st.reward(s, a, n)
                    if n in subgoals or not clip:
                        okr.append(S.eq(got, base_r))
                    else:
                        okr.append(S.eq(got, S.Min([base_r, cl])))
        S.check('sub_task:reward-is-the-base-reward-clipped-unless-the-successor-is-a-subgoal', S.And(okr))
        S.check('sub_task:absorbing-states-are-the-subgoals(+base-absorbing-if-requested)', S.truth(all(
            bool(st.is_absorbing(s)) == ((s in subgoals) or (include_abs and s in sk.absorbing)) for s in sk.states)))
        d0 = st.initial_state_dist()
        S.check('sub_task:initial-distribution-uniform-on-the-initiation-set', S.And(
            [S.truth(set(d0.support) == set(initial))] + [S.eq(d0.prob(s), S.const(Fraction(1, len(initial)))) for s in initial]))
        S.check('sub_task:discount-is-the-base-discount', S.eq(st.discount_rate, v.gamma))
        S.check('sub_task:transitions-and-actions-are-the-base-ones', S.And(
            [S.truth(tuple(st.actions(s)) == tuple(sk.actions.get(s, ()))) for s in sk.states] +
            [S.eq(st.next_state_dist(s, a).prob(n), M.spec_T(v, s, a, n)) for s in sk.states for a in sk.actions.get(s, ()) for n in sk.states]))
        S.check('PlanToSubgoalOption:is_initial/is_terminal/name/max_steps', S.truth(
            all(o.is_initial(s) == (s in initial) and o.is_terminal(s) == (s in subgoals) for s in sk.states) and o.name == 'o1' and o.max_steps == 7))


def h_semimdp(sk, pkind, terminal, start, nsim, include_actions, smdp_seed=5):
    mdp, v = M.make_mdp(sk, gamma='sym', numeric='generic')
    mdp.discount_rate = v.gamma
    uses = []
    recorded = []
    with facades(uses):
        policy, table = option_policy(sk, pkind)
        o = SimpleOption(policy, set(terminal), 6, name='go', initial_states={0, 1, 3})
        o2 = SimpleOption(policy, {0}, 6, name='back', initial_states={4})
        sm = smdp.SemiMarkovDecisionProcess(mdp=mdp, options=[o, o2], n_option_simulations=nsim, include_mdp_actions=include_actions, seed=smdp_seed)      # 0 is a legal fixed seed
        for s in sk.states:
            want = [x for x in (o, o2) if x.is_initial(s)]
            got = list(sm.actions(s))
            S.check('SemiMDP.actions:options-initiable-here(+primitive-actions-if-requested)', S.truth(
                got == (list(sk.actions.get(s, ())) + want if include_actions else want)))
        S.check('SemiMDP.initial_state_dist:is-the-base-one', S.And([S.eq(sm.initial_state_dist().prob(s), v.p0.get(s, 0)) for s in sk.states]))
        # primitive action: one-step outcomes with duration 1
        a = 'r'
        d = sm.next_state_transit_time_reward_dist(start, a)
        okp = []
        for n in sk.supp[(start, a)]:
            okp.append(S.eq(d.prob((n, 1, v.R[(start, a, n)])), v.T[(start, a, n)]))
        okp.append(S.eq(S.Sum(d.values()), 1))
        okp.append(S.truth(all(t == 1 for (_, t, _) in d.support)))
        S.check('SemiMDP:primitive-action-yields-its-one-step-outcomes-with-duration-1', S.And(okp))
        # option: empirical distribution of its own simulations
        orig = smdp.SemiMarkovDecisionProcess.run_simulations

        def spy(self, s, a_):
            r = orig(self, s, a_)
            recorded.append(r)
            return r
        smdp.SemiMarkovDecisionProcess.run_simulations = spy
        try:
            try:
                od = sm.next_state_transit_time_reward_dist(start, o)
            except AlgorithmException:
                raise S.PathEnd()       # histories that hit the option's step limit are covered by h_option_run
        finally:
            smdp.SemiMarkovDecisionProcess.run_simulations = orig
        sims = recorded[0]
        S.check('SemiMDP:runs-n_option_simulations-simulations', S.truth(len(sims) == nsim))
        outcomes = []
        for sim in sims:
            steps = list(sim.steps)
            for c in check_option_traj(sk, v, table, steps, start, set(terminal), 'sim'):
                pass
            body = steps[:-1]
            G, disc = 0, 1
            for st in body:
                G = G + st['reward'] * disc
                disc = disc * v.gamma
            outcomes.append((steps[-1]['state'], len(body), G))
        items = list(od.items())
        ok = [S.eq(S.Sum(p for _, p in items), 1)]
        for (ns, t, r), p in items:
            cnt = S.Sum((S.If(S.eq(r, G).exact if S.symbolic() else S.eq(r, G).concrete, 1, 0) if (ns == e and t == k) else 0) for (e, k, G) in outcomes) \
                if S.symbolic() else sum(1 for (e, k, G) in outcomes if ns == e and t == k and S.eq(r, G).concrete)
            ok.append(S.eq(p * nsim, cnt))
        for (e, k, G) in outcomes:
            ok.append(S.Or([S.And(S.truth(ns == e and t == k), S.eq(r, G)) for (ns, t, r), p in items]))
        S.check('SemiMDP:option-outcome-distribution-is-normalised-and-equals-the-empirical-distribution-of(end-state,steps,discounted-reward)', S.And(ok))
        # marginals
        nd = sm.next_state_dist(start, a)
        S.check('SemiMDP.next_state_dist:marginal', S.And([S.eq(nd.prob(n), M.spec_T(v, start, a, n)) for n in sk.states]))
        ntd = sm.next_state_transit_time_dist(start, a)
        S.check('SemiMDP.next_state_transit_time_dist:marginal', S.And([S.eq(ntd.prob((n, 1)), M.spec_T(v, start, a, n)) for n in sk.states]))
        S.check('SemiMDP.expected_cumulative_reward:expectation', S.eq(
            sm.expected_cumulative_reward(start, a), S.Sum(v.T[(start, a, n)] * v.R[(start, a, n)] for n in sk.supp[(start, a)])))
        try:
            sm.next_state_transit_time_reward_dist(start, 'not-an-action')
            e = False
        except ValueError:
            e = True
        S.check('SemiMDP:unknown-action-raises-ValueError', S.truth(e))
        S.check('SemiMDP:only-the-private-seeded-generator-is-used', S.truth(not [u for u in uses if 'Random' not in u]), detail=repr(uses))


# ---------------------------------------------------------------- tier U: abstract base MDP (uninterpreted components), arbitrary atoms

def _abstract_base(tag='base'):
    import z3
    from symrun.absx import Atom
    from msdm.core.mdp import MarkovDecisionProcess
    I, B, Rl = z3.IntSort(), z3.BoolSort(), z3.RealSort()
    Abs, Rw = z3.Function('Abs_' + tag, I, B), z3.Function('Rw_' + tag, I, I, I, Rl)
    g = S.real('gamma_' + tag)
    d0 = ('initial_state_dist', tag)

    class Base(MarkovDecisionProcess):
        def __init__(self): self.discount_rate = g           # instance attribute, as the built-in domains set it
        def initial_state_dist(self): return d0
        def actions(self, s): return ('actions', tag, s)
        def next_state_dist(self, s, a): return ('next_state_dist', tag, s, a)
        def reward(self, s, a, ns): return S.SymReal(Rw(s.e, a.e, ns.e))
        def is_absorbing(self, s): return S.SymBool(Abs(s.e))
    return Base(), dict(Abs=Abs, Rw=Rw, gamma=g, d0=d0, tag=tag)


def _same(got, want):
    return isinstance(got, tuple) and len(got) == len(want) and all(x is y for x, y in zip(got, want))


def h_augment_U(mask, nested=False):
    """augment() over an ABSTRACT base MDP: for arbitrary states/actions (atoms) every non-overridden component returns what the base returns, every overridden one
    what the override returns; the discount rate is the base's; the base is untouched.  No skeleton, no bound."""
    import z3
    from symrun.absx import fresh_atom
    base, u = _abstract_base()
    if nested:
        # the base is itself derived: all five components are plain functions supplied as overrides (F22)
        b0 = base
        base = opt.augment(b0, initial_state_dist=lambda: b0.initial_state_dist(), actions=lambda x: b0.actions(x), next_state_dist=lambda x, y: b0.next_state_dist(x, y),
                           reward=lambda x, y, z: b0.reward(x, y, z), is_absorbing=lambda x: b0.is_absorbing(x))
    ov = _abstract_base('ovr')[1]
    s, a, ns = fresh_atom('s'), fresh_atom('a'), fresh_atom('ns')
    over = {}
    if mask & 1:
        over['initial_state_dist'] = lambda: ov['d0']
    if mask & 2:
        over['actions'] = lambda x: ('actions', 'ovr', x)
    if mask & 4:
        over['next_state_dist'] = lambda x, y: ('next_state_dist', 'ovr', x, y)
    if mask & 8:
        over['reward'] = lambda x, y, z: S.SymReal(ov['Rw'](x.e, y.e, z.e))
    if mask & 16:
        over['is_absorbing'] = lambda x: S.SymBool(ov['Abs'](x.e))
    aug = opt.augment(base, **over)
    t = lambda bit: 'ovr' if mask & bit else 'base'
    w = lambda bit: ov if mask & bit else u
    S.check('U:augment:initial_state_dist', S.truth(aug.initial_state_dist() is w(1)['d0']))
    S.check('U:augment:actions', S.truth(_same(aug.actions(s), ('actions', t(2), s))))
    S.check('U:augment:next_state_dist', S.truth(_same(aug.next_state_dist(s, a), ('next_state_dist', t(4), s, a))))
    S.check('U:augment:reward', S.eq(aug.reward(s, a, ns), S.SymReal(w(8)['Rw'](s.e, a.e, ns.e))))
    S.check('U:augment:is_absorbing', S.Iff(S.truth(aug.is_absorbing(s)) if isinstance(aug.is_absorbing(s), bool) else aug.is_absorbing(s), S.SymBool(w(16)['Abs'](s.e))))
    S.check('U:augment:discount-rate-is-the-base-discount-rate', S.eq(aug.discount_rate, u['gamma']))
    S.check('U:augment:base-is-not-modified', S.And([S.eq(base.discount_rate, u['gamma']), S.truth(_same(base.actions(s), ('actions', 'base', s))),
                                                     S.truth(base.initial_state_dist() is u['d0']), S.Iff(base.is_absorbing(s), S.SymBool(u['Abs'](s.e))),
                                                     S.eq(base.reward(s, a, ns), S.SymReal(u['Rw'](s.e, a.e, ns.e)))]))


class _AbsSet:
    """a container whose membership is an uninterpreted predicate (any set of labels, of any size)"""
    def __init__(self, pred): self.pred = pred
    def __contains__(self, x): return bool(S.SymBool(self.pred(x.e)))       # forks


def h_sub_task_U(include_abs, clip):
    """PlanToSubgoalOption.sub_task over an abstract base MDP, abstract sub-goal / initiation sets, symbolic clipping level"""
    import z3
    from symrun.absx import fresh_atom
    base, u = _abstract_base()
    I, B = z3.IntSort(), z3.BoolSort()
    Goal, Ini = z3.Function('Goal', I, B), z3.Function('Ini', I, B)
    goals, inits = _AbsSet(Goal), _AbsSet(Ini)
    cl = S.real('clip') if clip else float('inf')
    M_ = S.integer('max_steps', 0, None)

    class UniformStub:
        @staticmethod
        def uniform(x): return ('uniform', x)
    s, a, ns = fresh_atom('s'), fresh_atom('a'), fresh_atom('ns')
    with patched((opt, dict(DictDistribution=UniformStub))):
        o = opt.PlanToSubgoalOption(mdp=base, initial_states=inits, subgoals=goals, planner=None, include_mdp_absorbing_states=include_abs,
                                    name='o1', max_steps=M_, max_nonterminal_pseudoreward=cl)
        st = o.sub_task
        R = S.SymReal(u['Rw'](s.e, a.e, ns.e))
        got = st.reward(s, a, ns)
        S.check('U:sub_task:reward-is-the-base-reward-clipped-unless-the-successor-is-a-subgoal',
                S.eq(got, S.If(S.SymBool(Goal(ns.e)), R, S.Min([R, cl]) if clip else R)))
        ab = st.is_absorbing(s)
        ab = S.truth(ab) if isinstance(ab, bool) else ab
        want = S.Or([S.SymBool(Goal(s.e)), S.SymBool(u['Abs'](s.e))]) if include_abs else S.SymBool(Goal(s.e))
        S.check('U:sub_task:absorbing-states-are-the-subgoals(+base-absorbing-if-requested)', S.Iff(ab, want))
        S.check('U:sub_task:initial-distribution-is-DictDistribution.uniform(initiation-set)', S.truth(_same(st.initial_state_dist(), ('uniform', inits))))
        S.check('U:sub_task:discount-is-the-base-discount', S.eq(st.discount_rate, u['gamma']))
        S.check('U:sub_task:transitions-and-actions-are-the-base-ones', S.truth(_same(st.actions(s), ('actions', 'base', s)) and
                                                                               _same(st.next_state_dist(s, a), ('next_state_dist', 'base', s, a))))
        S.check('U:PlanToSubgoalOption:is_initial/is_terminal/name/max_steps', S.And([
            S.Iff(S.truth(o.is_initial(s)), S.SymBool(Ini(s.e))), S.Iff(S.truth(o.is_terminal(s)), S.SymBool(Goal(s.e))), S.truth(o.name == 'o1'), S.truth(o.max_steps is M_)]))


def h_option_run_U():
    """Option.run_on checked against the CONTRACT of Policy.run_on (C14, tier U) instead of its body: the callee is handed an MDP whose absorbing predicate is the
    option's terminal predicate and whose other components are the base's, the option's start state / step limit / generator; by the callee's postcondition the
    roll-out has k <= max_steps steps and ends in a state that is absorbing for that MDP unless k == max_steps.  Then: the option returns that very roll-out
    and it ends at a terminal state, or it raises and k + 1 >= max_steps.  Abstract base MDP, symbolic step limit, no bound."""
    import z3
    from symrun.absx import fresh_atom
    base, u = _abstract_base()
    I, B = z3.IntSort(), z3.BoolSort()
    Term = z3.Function('Term', I, B)
    M_ = S.integer('max_steps', 0, None)
    start = fresh_atom('start')
    the_rng = object()
    calls = []

    class Result:
        def __init__(self, k, final): self.k, self.final = k, final

    class StubPolicy:
        def run_on(self, mdp, initial_state=None, max_steps=None, rng=None):
            calls.append(dict(mdp=mdp, initial_state=initial_state, max_steps=max_steps, rng=rng))
            k = S.integer('k_steps', 0, None)
            fs = fresh_atom('final_state')
            S.assume(S.le(k, max_steps))                                              # callee postcondition (C14 U: stops at the cap)
            ab = mdp.is_absorbing(fs)                                                 # ... evaluated on the MDP the callee was actually given
            ab = S.truth(ab) if isinstance(ab, bool) else ab
            S.assume(S.Or([ab, S.eq(k, max_steps)]))                                  # callee postcondition (C14 U: ... or at the first absorbing state)
            return Result(k, fs)

    def symlen(x):
        return x.k + 1 if isinstance(x, Result) else len(x)                            # SimulationResult.__len__ = number of steps + the final bare step
    o = SimpleOption(StubPolicy(), _AbsSet(Term), M_)
    with patched((opt, dict(len=symlen))):
        try:
            res = o.run_on(base, initial_state=start, rng=the_rng)
            raised = False
        except AlgorithmException:
            raised, res = True, None
    S.check('U:Option.run_on:delegates-exactly-once', S.truth(len(calls) == 1))
    c = calls[0]
    sub = c['mdp']
    s, a, ns = fresh_atom('s'), fresh_atom('a'), fresh_atom('ns')
    ab = sub.is_absorbing(s)
    ab = S.truth(ab) if isinstance(ab, bool) else ab
    S.check('U:Option.run_on:roll-out-MDP-is-the-base-with-absorbing=terminal', S.And([
        S.Iff(ab, S.SymBool(Term(s.e))), S.truth(_same(sub.actions(s), ('actions', 'base', s))), S.truth(_same(sub.next_state_dist(s, a), ('next_state_dist', 'base', s, a))),
        S.eq(sub.reward(s, a, ns), S.SymReal(u['Rw'](s.e, a.e, ns.e))), S.eq(sub.discount_rate, u['gamma'])]))
    S.check('U:Option.run_on:passes-start-state,step-limit-and-generator', S.truth(c['initial_state'] is start and c['max_steps'] is M_ and c['rng'] is the_rng))
    k = S.cur().inputs['k_steps']
    k = S.SymReal(k) if not isinstance(k, S.SymReal) else k
    if raised:
        S.check('U:Option.run_on:raises-only-at-its-step-limit', S.ge(k + 1, M_))
    else:
        S.check('U:Option.run_on:returns-the-roll-out;it-ends-at-a-terminal-state-below-the-step-limit',
                S.And([S.truth(isinstance(res, Result)), S.SymBool(Term(res.final.e)), S.lt(k + 1, M_, tol=0)]))


def rt_semimdp_consistency(seed, n):
    """R: for every seed setting (a fixed seed INCLUDING 0, and None) the outcome distribution of an option equals the empirical distribution of the
    semi-MDP's own simulations -- asked for before and after, on the same object; with a fixed seed nothing depends on or disturbs the ambient generator"""
    import random
    from msdm.core.mdp import TabularMarkovDecisionProcess
    from msdm.core.distributions import DictDistribution as D
    rnd = random.Random('smdp/%s' % seed)
    out = []

    class Corridor(TabularMarkovDecisionProcess):
        discount_rate = 0.9
        def __init__(self, slip): self.slip = slip
        def initial_state_dist(self): return D({0: 1.0})
        def actions(self, s): return ('r', 'l')
        def is_absorbing(self, s): return s == 4
        def next_state_dist(self, s, a):
            n = min(4, s + 1) if a == 'r' else max(0, s - 1)
            return D({n: 1.0}) if n == s else D({n: 1 - self.slip, s: self.slip})
        def reward(self, s, a, ns): return -1.0 - 0.25 * s

    def empirical(sims, g):
        cnt = {}
        for sim in sims:
            steps = list(sim.steps)
            G, disc = 0.0, 1.0
            for st in steps[:-1]:
                G += st['reward'] * disc
                disc *= g
            key = (steps[-1]['state'], len(steps) - 1, round(G, 9))
            cnt[key] = cnt.get(key, 0) + 1
        return {k: c / len(sims) for k, c in cnt.items()}

    def as_dict(d):
        return {(ns, t, round(float(r), 9)): float(p) for (ns, t, r), p in d.items()}

    def close(a, b):
        return set(a) == set(b) and all(abs(a[k] - b[k]) < 1e-9 for k in a)
    for k in range(n):
        mdp = Corridor(rnd.choice([0.2, 0.5]))
        policy = pol.FunctionalPolicy(lambda s: D({'r': 0.7, 'l': 0.3}))
        o = SimpleOption(policy, {3, 4}, 200, name='to-3')
        for sd in (0, 7, None):
            nsim = rnd.choice([3, 8])
            random.seed(1000 + k)
            st0 = random.getstate()
            sm = smdp.SemiMarkovDecisionProcess(mdp=mdp, options=[o], n_option_simulations=nsim, seed=sd)
            d1 = as_dict(sm.next_state_transit_time_reward_dist(1, o))
            sims = sm.run_simulations(1, o)
            d2 = as_dict(sm.next_state_transit_time_reward_dist(1, o))
            emp = empirical(sims, mdp.discount_rate)
            w = dict(seed=sd, nsim=nsim, slip=mdp.slip, d1=repr(d1), emp=repr(emp), d2=repr(d2))
            out.append(dict(name='rt:SemiMDP:outcome-distribution-equals-the-empirical-distribution-of-its-own-simulations(any-seed-setting,asked-twice)',
                            ok=close(d1, emp) and close(d2, emp) and abs(sum(d1.values()) - 1) < 1e-9, witness=w))
            # two DIFFERENT options with the SAME name (every option built without a name has the name None) in one semi-MDP, asked from the same state in
            # either order: each one's outcomes are its own simulations' and end where IT declares terminal
            o2 = SimpleOption(policy, {2, 4}, 200, name='to-3')
            for first, second, t1, t2 in ((o, o2, {3, 4}, {2, 4}), (o2, o, {2, 4}, {3, 4})):
                smb = smdp.SemiMarkovDecisionProcess(mdp=mdp, options=[o, o2], n_option_simulations=nsim, seed=sd)
                da = as_dict(smb.next_state_transit_time_reward_dist(1, first))
                db = as_dict(smb.next_state_transit_time_reward_dist(1, second))
                emp_b = empirical(smb.run_simulations(1, second), mdp.discount_rate)
                out.append(dict(name='rt:SemiMDP:two-options-with-the-same-name:each-ends-in-its-own-terminal-set-and-equals-its-own-simulations',
                                ok=all(ns in t1 for (ns, _, _) in da) and all(ns in t2 for (ns, _, _) in db) and close(db, emp_b),
                                witness=dict(seed=sd, nsim=nsim, slip=mdp.slip, first=sorted(t1), da=repr(da), db=repr(db), emp_b=repr(emp_b))))
            if sd is not None:
                untouched = random.getstate() == st0
                random.seed(77 + k)       # a different ambient state must not matter
                sm2 = smdp.SemiMarkovDecisionProcess(mdp=mdp, options=[o], n_option_simulations=nsim, seed=sd)
                d3 = as_dict(sm2.next_state_transit_time_reward_dist(1, o))
                out.append(dict(name='rt:SemiMDP:fixed-seed(incl. 0):reproducible-and-isolated-from-the-ambient-generator', ok=untouched and close(d1, d3), witness=dict(w, d3=repr(d3), untouched=untouched)))
    return out


def rt_plan_to_subgoal(seed, n):
    """R: PlanToSubgoalOption plans on the sub-task with the base discount (un-stubbed ValueIteration), policy reaches the sub-goal"""
    from msdm.algorithms import ValueIteration
    from msdm.tests.domains import LineWorld
    import random
    rnd = random.Random(seed)
    out = []
    for k in range(n):
        g = rnd.choice([0.5, 0.9, 0.99])
        mdp = LineWorld(line=".is..i....g", discount_rate=g)
        o = opt.PlanToSubgoalOption(mdp=mdp, initial_states=[0, 1, 2, 3, 4], subgoals=[5], planner=ValueIteration(max_residual=1e-10), max_steps=50)
        res = o.planning_result
        st = o.sub_task
        out.append(dict(name='rt:PlanToSubgoalOption:sub-task-discount-is-the-base-discount', ok=st.discount_rate == g, witness=dict(gamma=g)))
        # with step reward -1 the discounted value of being d steps from the sub-goal is -(1-g^d)/(1-g)
        for s in (2, 3, 4):
            d = 5 - s
            want = -(1 - g ** d) / (1 - g)
            out.append(dict(name='rt:PlanToSubgoalOption:plans-with-the-base-discount-and-rewards', ok=abs(res.state_value[s] - want) < 1e-6,
                            witness=dict(gamma=g, s=s, got=float(res.state_value[s]), want=want)))
        traj = o.run_on(mdp, initial_state=2, rng=random.Random(k))
        out.append(dict(name='rt:Option.run_on:ends-at-the-subgoal', ok=traj.state[-1] == 5 and 5 not in traj.state[:-1], witness=dict(states=repr(traj.state))))
    return out


def tasks(tier, seed):
    T = []
    sk2, sk3 = M.basic('s2-explicit'), M.basic('s3-branch')
    for sk in (sk2, sk3):
        for bk in ('class-discount', 'instance-discount', 'quick', 'augmented'):
            for mask in range(32):
                if tier == 'quick' and sk is sk3 and bk in ('quick', 'augmented') and mask not in (0, 31, 8, 16):
                    continue
                T.append(Task('augment/%s/%s/mask%02d' % (sk.name, bk, mask), h_augment, (sk, bk, mask, False), tier='B'))
            if bk in ('class-discount', 'instance-discount'):
                for mask in (0, 1, 8, 16, 25):
                    T.append(Task('augment-arrays/%s/%s/mask%02d' % (sk.name, bk, mask), h_augment_arrays, (sk, bk, mask), tier='B', note='base arrays cached before the derivation'))
            if bk not in ('quick', 'augmented'):
                T.append(Task('augment/%s/%s/list-overrides' % (sk.name, bk), h_augment, (sk, bk, 0, True), tier='B'))
    cor = corridor()
    for pk in ('right', 'mixed'):
        for terminal in ((4,), (3, 4), (0,)):
            for start in (0, 1, 3):
                for ms in ((2, 4, 6) if tier == 'quick' else (1, 2, 3, 4, 5, 6)):
                    if pk == 'mixed' and ms > 4 and tier == 'quick':
                        continue
                    T.append(Task('option_run/%s/term%s/start%d/max%d' % (pk, '-'.join(map(str, terminal)), start, ms), h_option_run, (cor, pk, terminal, start, ms),
                                  tier='B', max_paths=5000))
    for subgoals, initial in (((4,), (0, 1)), ((1, 3), (0,))):
        for inc in (False, True):
            for clip in (False, True):
                T.append(Task('sub_task/goals%s/inc%d/clip%d' % ('-'.join(map(str, subgoals)), inc, clip), h_sub_task, (cor, subgoals, initial, inc, clip), tier='B'))
    for pk in ('right', 'mixed'):
        for nsim in (1, 2):
            for inc in (False, True):
                T.append(Task('semimdp/%s/n%d/inc%d' % (pk, nsim, inc), h_semimdp, (cor, pk, (4,), 1, nsim, inc), tier='B', max_paths=6000))
    for mask in range(32):
        T.append(Task('U/augment/abstract-base/mask%02d' % mask, h_augment_U, (mask,), tier='U', note='uninterpreted base components, arbitrary atoms'))
    for mask in (0, 5, 8, 16, 26, 31):
        T.append(Task('U/augment/abstract-derived-base/mask%02d' % mask, h_augment_U, (mask, True), tier='U', note='the base is itself an augmented MDP'))
    for inc in (False, True):
        for clip in (False, True):
            T.append(Task('U/sub_task/abstract-base/inc%d/clip%d' % (inc, clip), h_sub_task_U, (inc, clip), tier='U', note='abstract sub-goal and initiation sets'))
    T.append(Task('U/option_run/by-callee-contract', h_option_run_U, (), tier='U', note='Policy.run_on replaced by its C14 tier-U contract; symbolic step limit'))
    T.append(Task('semimdp/mixed/n2/inc0/seed0', h_semimdp, (cor, 'mixed', (4,), 1, 2, False, 0), tier='B', max_paths=6000, note='fixed seed 0'))
    T.append(Task('rt/semimdp-seed-settings', rt_semimdp_consistency, (seed, 6 if tier == 'quick' else 40), tier='R', kind='rt'))
    T.append(Task('rt/plan-to-subgoal', rt_plan_to_subgoal, (seed, 6 if tier == 'quick' else 30), tier='R', kind='rt'))
    return T


MANIFEST_ENTRY = dict(
    category='other',
    text=('Contracts on augment (complete case analysis over all subsets of overridden components, for class-level, instance-level and Quick bases: '
          'every non-overridden component, the discount rate and the lists equal the base), Option.run_on (stops exactly at the first declared-terminal '
          'state, raises only at its step limit, frame), PlanToSubgoalOption.sub_task (clipping, absorbing set, initial distribution, discount) and the '
          'semi-MDP (primitive outcomes with duration 1; option outcome distribution = empirical distribution of its own simulations; marginals).'),
    note='Bounded skeletons, option step limits <=6, simulation counts <=2 (tier B); run-time tier for planning with the base discount. Tier U: augment / sub_task over an abstract base MDP for all override masks; Option.run_on against the callee contract of Policy.run_on.',
)
END_MANIFEST_ENTRY = True


SENTINELS = [
    Sentinel('U:augment-drops-the-discount-rate', 'msdm.core.semimdp.option', "    AugmentedMDP.discount_rate = mdp.discount_rate\n", "    AugmentedMDP.discount_rate = 1.0\n",
             ['U/augment/abstract-base/mask00']),
    Sentinel('U:augment-stores-inherited-components-unwrapped', 'msdm.core.semimdp.option', "        AugmentedMDP.is_absorbing = staticmethod(mdp.is_absorbing)", "        AugmentedMDP.is_absorbing = mdp.is_absorbing",
             ['U/augment/abstract-derived-base/mask08']),
    Sentinel('U:augment-ignores-a-reward-override', 'msdm.core.semimdp.option', "        AugmentedMDP.reward = staticmethod(reward)", "        AugmentedMDP.reward = mdp.reward",
             ['U/augment/abstract-base/mask08']),
    Sentinel('U:sub_task-clips-rewards-into-subgoals-too', 'msdm.core.semimdp.option', "            if self.is_terminal(ns):\n                return real_reward", "            if False:\n                return real_reward",
             ['U/sub_task/abstract-base/inc0/clip1']),
    Sentinel('U:sub_task-always-includes-base-absorbing-states', 'msdm.core.semimdp.option', "            if self.include_mdp_absorbing_states:\n", "            if True:\n",
             ['U/sub_task/abstract-base/inc0/clip0']),
    Sentinel('U:option-roll-out-stops-at-base-absorbing-states-instead', 'msdm.core.semimdp.option', "            is_absorbing=lambda s : self.is_terminal(s),", "            is_absorbing=lambda s : mdp.is_absorbing(s),",
             ['U/option_run/by-callee-contract']),
    Sentinel('U:option-step-limit-off-by-one', 'msdm.core.semimdp.option', "        if len(result) >= self.max_steps:", "        if len(result) > self.max_steps + 1:",
             ['U/option_run/by-callee-contract']),
    Sentinel('U:option-ignores-the-generator', 'msdm.core.semimdp.option', "            max_steps=self.max_steps,\n            rng=rng\n", "            max_steps=self.max_steps,\n",
             ['U/option_run/by-callee-contract']),
]
