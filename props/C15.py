"""C15 -- augmented sub-tasks, options and the semi-MDP."""
import math, itertools, random as _random, contextlib
from fractions import Fraction
import numpy as np
from symrun import core as S
from symrun.driver import Task, Sentinel
from symrun.patch import patched
from symrun.rngf import DemonicRng, Tripwire
from specs import mdpspec as M
from specs.mdpspec import Skel

import msdm.core.semimdp.option as opt
import msdm.core.semimdp.semimdp as smdp
import msdm.core.mdp.policy as pol
import msdm.core.distributions.distributions as dd
import msdm.core.distributions.dictdistribution as dct
from msdm.core.distributions import DictDistribution
from msdm.core.exceptions import AlgorithmException
from msdm.core.mdp.quickmdp import QuickMDP

FILES = ['msdm/core/semimdp/option.py', 'msdm/core/semimdp/semimdp.py']
FUNCTIONS = ['msdm.core.semimdp.option.augment', 'msdm.core.semimdp.option.Option.run_on', 'msdm.core.semimdp.option.PlanToSubgoalOption.__init__',
             'msdm.core.semimdp.option.PlanToSubgoalOption.is_initial', 'msdm.core.semimdp.option.PlanToSubgoalOption.is_terminal',
             'msdm.core.semimdp.option.PlanToSubgoalOption.sub_task', 'msdm.core.semimdp.option.PlanToSubgoalOption.planning_result',
             'msdm.core.semimdp.option.PlanToSubgoalOption.policy',
             'msdm.core.semimdp.semimdp.SemiMarkovDecisionProcess.actions', 'msdm.core.semimdp.semimdp.SemiMarkovDecisionProcess.next_state_transit_time_reward_dist',
             'msdm.core.semimdp.semimdp.SemiMarkovDecisionProcess.next_state_transit_time_dist', 'msdm.core.semimdp.semimdp.SemiMarkovDecisionProcess.next_state_dist',
             'msdm.core.semimdp.semimdp.SemiMarkovDecisionProcess.expected_cumulative_reward', 'msdm.core.semimdp.semimdp.SemiMarkovDecisionProcess.run_simulations',
             'msdm.core.semimdp.semimdp.SemiMarkovDecisionProcess.initial_state_dist']
ASSUMPTIONS = [
    'augment: complete case analysis over all 2^5 subsets of overridden functional components (x list overrides for tabular bases), base components symbolic (values identified as terms)',
    'demonic generator for option roll-outs: every sampled history up to the option step limit (<=4) is explored',
    'tier B: MDP skeleton families incl. a base-absorbing state that the option does not declare terminal; simulation counts <=2',
    'floats are mathematical reals',
]
LEMMAS = []
NOT_DECIDED = ['option step limits / simulation counts beyond the bound']
EXPLANATION = 'C15: augment component-wise equality (incl. discount and lists), Option.run_on stop rule, sub_task clipping, semi-MDP outcome distribution = empirical distribution of its own simulations.'

COMPONENTS = ['initial_state_dist', 'actions', 'next_state_dist', 'reward', 'is_absorbing']


@contextlib.contextmanager
def facades(uses):
    trip = Tripwire('random', uses)
    if not S.symbolic():
        with patched((pol, dict(random=trip)), (opt, dict(random=trip)), (smdp, dict(random=trip)), (dd, dict(random=trip)), (dct, dict(random=trip))):
            yield
        return
    with M.facades(), patched((pol, dict(random=trip)), (opt, dict(random=trip)), (smdp, dict(random=trip)), (dd, dict(random=trip)), (dct, dict(random=trip))):
        yield


def corridor():
    """0 -> 1 -> 2(base goal, absorbing) -> 3 -> 4(sub-goal); stochastic stay"""
    return Skel('corridor', [0, 1, 2, 3, 4], {s: ('r', 'l') for s in range(5)},
                {**{(s, 'r'): ((s + 1, s) if s < 4 else (4,)) for s in range(5)}, **{(s, 'l'): ((s - 1,) if s > 0 else (0,)) for s in range(5)}},
                absorbing=[2], init=[0, 1])


def h_augment(sk, base_kind, mask, list_override):
    """every non-overridden component of augment(mdp, ...) equals the base's; overridden ones equal the override"""
    mdp, v = M.make_mdp(sk, gamma='sym', numeric='sym')
    if base_kind == 'quick':
        base = QuickMDP(next_state_dist=mdp.next_state_dist, reward=mdp.reward, actions=mdp.actions, initial_state_dist=mdp.initial_state_dist,
                        is_absorbing=mdp.is_absorbing, discount_rate=v.gamma)
    elif base_kind == 'instance-discount':
        base = mdp
        base.discount_rate = v.gamma          # instance attribute (as the built-in domains set it in __init__)
    else:
        base = mdp
    over = {}
    marks = {}
    rO = S.real('override_reward')
    states = list(sk.states)
    if mask & 1:
        d0 = DictDistribution({states[-1]: 1.0})
        over['initial_state_dist'] = lambda: d0
        marks['initial_state_dist'] = d0
    if mask & 2:
        over['actions'] = lambda s: ('only',)
    if mask & 4:
        dn = DictDistribution({states[0]: 1.0})
        over['next_state_dist'] = lambda s, a: dn
        marks['next_state_dist'] = dn
    if mask & 8:
        over['reward'] = lambda s, a, ns: rO
    if mask & 16:
        over['is_absorbing'] = lambda s: s == states[0]
    with M.facades():
        if list_override and base_kind != 'quick':
            over['state_list'] = tuple(reversed(states))
            over['action_list'] = tuple(reversed(sk.action_list)) + ('only',)
        aug = opt.augment(base, **over)
        ok = {}
        ok['initial_state_dist'] = [S.truth(aug.initial_state_dist() is marks['initial_state_dist'])] if mask & 1 else \
            [S.eq(aug.initial_state_dist().prob(s), v.p0.get(s, 0)) for s in states] + [S.truth(set(aug.initial_state_dist().support) == set(v.p0))]
        ok['actions'] = [S.truth(tuple(aug.actions(s)) == (('only',) if mask & 2 else tuple(sk.actions.get(s, ())))) for s in states]
        nd = []
        for s in states:
            for a in sk.actions.get(s, ()):
                d = aug.next_state_dist(s, a)
                if mask & 4:
                    nd.append(S.truth(d is marks['next_state_dist']))
                else:
                    nd += [S.eq(d.prob(n), M.spec_T(v, s, a, n)) for n in states]
        ok['next_state_dist'] = nd
        ok['reward'] = [S.eq(aug.reward(s, a, n), rO if mask & 8 else v.R[(s, a, n)]) for s in states for a in sk.actions.get(s, ()) for n in sk.supp[(s, a)]]
        ok['is_absorbing'] = [S.truth(bool(aug.is_absorbing(s)) == ((s == states[0]) if mask & 16 else (s in sk.absorbing))) for s in states]
        for c in COMPONENTS:
            S.check('augment:%s-%s' % (c, 'is-the-override' if over.get(c) is not None else 'is-the-base-component'), S.And(ok[c]))
        S.check('augment:discount-rate-is-the-base-discount-rate', S.eq(aug.discount_rate, v.gamma))
        if base_kind != 'quick':
            if list_override:
                S.check('augment:list-overrides-are-used', S.truth(tuple(aug.state_list) == tuple(reversed(states)) and tuple(aug.action_list) == tuple(reversed(sk.action_list)) + ('only',)))
            else:
                S.check('augment:state-and-action-lists-are-the-base-lists', S.truth(tuple(aug.state_list) == tuple(base.state_list) and tuple(aug.action_list) == tuple(base.action_list)))
        S.check('augment:base-is-not-modified', S.And([S.eq(base.discount_rate, v.gamma), S.truth(tuple(base.actions(states[0])) == tuple(sk.actions.get(states[0], ())))]))


class SimpleOption(opt.Option):
    def __init__(self, policy, terminal_states, max_steps, name='opt', initial_states=None):
        self.policy = policy
        self.name = name
        self.max_steps = max_steps
        self.terminal_states = terminal_states
        self.initial_states = initial_states

    def is_terminal(self, s):
        return s in self.terminal_states

    def is_initial(self, s):
        return True if self.initial_states is None else s in self.initial_states

    def __hash__(self):
        return hash(self.name)


def option_policy(sk, kind):
    if kind == 'right':
        return pol.FunctionalPolicy(lambda s: DictDistribution({'r': 1.0})), {s: {'r': 1.0} for s in sk.states}
    table = {s: {'r': S.const(Fraction(3, 4)), 'l': S.const(Fraction(1, 4))} for s in sk.states}
    return pol.FunctionalPolicy(lambda s: DictDistribution(table[s])), table


def check_option_traj(sk, v, table, steps, start, terminal, prefix):
    body = steps[:-1]
    ok = [S.truth(set(steps[-1].keys()) == {'state'})]
    ok.append(S.truth((body[0]['state'] if body else steps[-1]['state']) == start))
    for t, st in enumerate(body):
        s, a, ns = st['state'], st['action'], st['next_state']
        ok.append(S.truth(s not in terminal))                      # no earlier state is terminal
        ok.append(S.truth(a in table[s] and (s, a) in sk.supp and ns in sk.supp[(s, a)]))
        if (s, a) in sk.supp and ns in sk.supp[(s, a)]:
            ok.append(S.eq(st['reward'], v.R[(s, a, ns)]))
        nxt = body[t + 1]['state'] if t + 1 < len(body) else steps[-1]['state']
        ok.append(S.truth(nxt == ns))
    return ok


def h_option_run(sk, pkind, terminal, start, max_steps):
    mdp, v = M.make_mdp(sk, gamma='sym', numeric='generic')
    mdp.discount_rate = v.gamma
    uses = []
    recorded = []
    with facades(uses):
        policy, table = option_policy(sk, pkind)
        o = SimpleOption(policy, set(terminal), max_steps)
        rng = DemonicRng('rng')
        orig = pol.Policy.run_on

        def spy(self, *a, **k):
            r = orig(self, *a, **k)
            recorded.append(r)
            return r
        pol.Policy.run_on = spy
        try:
            try:
                res = o.run_on(mdp, initial_state=start, rng=rng)
                raised = False
            except AlgorithmException:
                raised = True
                res = None
        finally:
            pol.Policy.run_on = orig
        inner = list(recorded[0].steps)
        k = len(inner) - 1
        if raised:
            S.check('Option.run_on:raises-only-at-its-step-limit', S.truth(k >= max_steps - 1))
        else:
            steps = list(res.steps)
            ok = check_option_traj(sk, v, table, steps, start, set(terminal), 'Option.run_on')
            ok.append(S.truth(steps[-1]['state'] in terminal))        # ends at a terminal state ...
            ok.append(S.truth(len(steps) - 1 < max_steps - 1))
            S.check('Option.run_on:valid-trajectory-that-ends-exactly-at-the-first-terminal-state', S.And(ok))
        S.check('Option.run_on:draws-only-from-the-supplied-generator', S.truth(not uses), detail=repr(uses))


def h_sub_task(sk, subgoals, initial, include_abs, clip):
    mdp, v = M.make_mdp(sk, gamma='sym', numeric='sym')
    mdp.discount_rate = v.gamma
    with M.facades():
        cl = S.real('clip') if clip else float('inf')
        o = opt.PlanToSubgoalOption(mdp=mdp, initial_states=list(initial), subgoals=list(subgoals), planner=None, include_mdp_absorbing_states=include_abs,
                                    name='o1', max_steps=7, max_nonterminal_pseudoreward=cl)
        st = o.sub_task
        okr = []
        triples = [(s, a, n) for s in sk.states for a in sk.actions.get(s, ()) for n in sk.supp[(s, a)]]
        if clip:       # each clipped comparison forks on the symbolic reward: keep the path count small, cover both kinds of successor
            triples = [t for t in triples if t[2] in subgoals][:2] + [t for t in triples if t[2] not in subgoals][:3]
        for (s, a, n) in triples:
            if True:
                if True:
                    base_r = v.R[(s, a, n)]
                    got = st.reward(s, a, n)
                    if n in subgoals or not clip:
                        okr.append(S.eq(got, base_r))
                    else:
                        okr.append(S.eq(got, S.Min([base_r, cl])))
        S.check('sub_task:reward-is-the-base-reward-clipped-unless-the-successor-is-a-subgoal', S.And(okr))
        S.check('sub_task:absorbing-states-are-the-subgoals(+base-absorbing-if-requested)', S.truth(all(
            bool(st.is_absorbing(s)) == ((s in subgoals) or (include_abs and s in sk.absorbing)) for s in sk.states)))
        d0 = st.initial_state_dist()
        S.check('sub_task:initial-distribution-uniform-on-the-initiation-set', S.And(
            [S.truth(set(d0.support) == set(initial))] + [S.eq(d0.prob(s), S.const(Fraction(1, len(initial)))) for s in initial]))
        S.check('sub_task:discount-is-the-base-discount', S.eq(st.discount_rate, v.gamma))
        S.check('sub_task:transitions-and-actions-are-the-base-ones', S.And(
            [S.truth(tuple(st.actions(s)) == tuple(sk.actions.get(s, ()))) for s in sk.states] +
            [S.eq(st.next_state_dist(s, a).prob(n), M.spec_T(v, s, a, n)) for s in sk.states for a in sk.actions.get(s, ()) for n in sk.states]))
        S.check('PlanToSubgoalOption:is_initial/is_terminal/name/max_steps', S.truth(
            all(o.is_initial(s) == (s in initial) and o.is_terminal(s) == (s in subgoals) for s in sk.states) and o.name == 'o1' and o.max_steps == 7))


def h_semimdp(sk, pkind, terminal, start, nsim, include_actions):
    mdp, v = M.make_mdp(sk, gamma='sym', numeric='generic')
    mdp.discount_rate = v.gamma
    uses = []
    recorded = []
    with facades(uses):
        policy, table = option_policy(sk, pkind)
        o = SimpleOption(policy, set(terminal), 6, name='go', initial_states={0, 1, 3})
        o2 = SimpleOption(policy, {0}, 6, name='back', initial_states={4})
        sm = smdp.SemiMarkovDecisionProcess(mdp=mdp, options=[o, o2], n_option_simulations=nsim, include_mdp_actions=include_actions, seed=5)
        for s in sk.states:
            want = [x for x in (o, o2) if x.is_initial(s)]
            got = list(sm.actions(s))
            S.check('SemiMDP.actions:options-initiable-here(+primitive-actions-if-requested)', S.truth(
                got == (list(sk.actions.get(s, ())) + want if include_actions else want)))
        S.check('SemiMDP.initial_state_dist:is-the-base-one', S.And([S.eq(sm.initial_state_dist().prob(s), v.p0.get(s, 0)) for s in sk.states]))
        # primitive action: one-step outcomes with duration 1
        a = 'r'
        d = sm.next_state_transit_time_reward_dist(start, a)
        okp = []
        for n in sk.supp[(start, a)]:
            okp.append(S.eq(d.prob((n, 1, v.R[(start, a, n)])), v.T[(start, a, n)]))
        okp.append(S.eq(S.Sum(d.values()), 1))
        okp.append(S.truth(all(t == 1 for (_, t, _) in d.support)))
        S.check('SemiMDP:primitive-action-yields-its-one-step-outcomes-with-duration-1', S.And(okp))
        # option: empirical distribution of its own simulations
        orig = smdp.SemiMarkovDecisionProcess.run_simulations

        def spy(self, s, a_):
            r = orig(self, s, a_)
            recorded.append(r)
            return r
        smdp.SemiMarkovDecisionProcess.run_simulations = spy
        try:
            try:
                od = sm.next_state_transit_time_reward_dist(start, o)
            except AlgorithmException:
                raise S.PathEnd()       # histories that hit the option's step limit are covered by h_option_run
        finally:
            smdp.SemiMarkovDecisionProcess.run_simulations = orig
        sims = recorded[0]
        S.check('SemiMDP:runs-n_option_simulations-simulations', S.truth(len(sims) == nsim))
        outcomes = []
        for sim in sims:
            steps = list(sim.steps)
            for c in check_option_traj(sk, v, table, steps, start, set(terminal), 'sim'):
                pass
            body = steps[:-1]
            G, disc = 0, 1
            for st in body:
                G = G + st['reward'] * disc
                disc = disc * v.gamma
            outcomes.append((steps[-1]['state'], len(body), G))
        items = list(od.items())
        ok = [S.eq(S.Sum(p for _, p in items), 1)]
        for (ns, t, r), p in items:
            cnt = S.Sum((S.If(S.eq(r, G).exact if S.symbolic() else S.eq(r, G).concrete, 1, 0) if (ns == e and t == k) else 0) for (e, k, G) in outcomes) \
                if S.symbolic() else sum(1 for (e, k, G) in outcomes if ns == e and t == k and S.eq(r, G).concrete)
            ok.append(S.eq(p * nsim, cnt))
        for (e, k, G) in outcomes:
            ok.append(S.Or([S.And(S.truth(ns == e and t == k), S.eq(r, G)) for (ns, t, r), p in items]))
        S.check('SemiMDP:option-outcome-distribution-is-normalised-and-equals-the-empirical-distribution-of(end-state,steps,discounted-reward)', S.And(ok))
        # marginals
        nd = sm.next_state_dist(start, a)
        S.check('SemiMDP.next_state_dist:marginal', S.And([S.eq(nd.prob(n), M.spec_T(v, start, a, n)) for n in sk.states]))
        ntd = sm.next_state_transit_time_dist(start, a)
        S.check('SemiMDP.next_state_transit_time_dist:marginal', S.And([S.eq(ntd.prob((n, 1)), M.spec_T(v, start, a, n)) for n in sk.states]))
        S.check('SemiMDP.expected_cumulative_reward:expectation', S.eq(
            sm.expected_cumulative_reward(start, a), S.Sum(v.T[(start, a, n)] * v.R[(start, a, n)] for n in sk.supp[(start, a)])))
        try:
            sm.next_state_transit_time_reward_dist(start, 'not-an-action')
            e = False
        except ValueError:
            e = True
        S.check('SemiMDP:unknown-action-raises-ValueError', S.truth(e))
        S.check('SemiMDP:only-the-private-seeded-generator-is-used', S.truth(not [u for u in uses if 'Random' not in u]), detail=repr(uses))


def rt_plan_to_subgoal(seed, n):
    """R: PlanToSubgoalOption plans on the sub-task with the base discount (un-stubbed ValueIteration), policy reaches the sub-goal"""
    from msdm.algorithms import ValueIteration
    from msdm.tests.domains import LineWorld
    import random
    rnd = random.Random(seed)
    out = []
    for k in range(n):
        g = rnd.choice([0.5, 0.9, 0.99])
        mdp = LineWorld(line=".is..i....g", discount_rate=g)
        o = opt.PlanToSubgoalOption(mdp=mdp, initial_states=[0, 1, 2, 3, 4], subgoals=[5], planner=ValueIteration(max_residual=1e-10), max_steps=50)
        res = o.planning_result
        st = o.sub_task
        out.append(dict(name='rt:PlanToSubgoalOption:sub-task-discount-is-the-base-discount', ok=st.discount_rate == g, witness=dict(gamma=g)))
        # with step reward -1 the discounted value of being d steps from the sub-goal is -(1-g^d)/(1-g)
        for s in (2, 3, 4):
            d = 5 - s
            want = -(1 - g ** d) / (1 - g)
            out.append(dict(name='rt:PlanToSubgoalOption:plans-with-the-base-discount-and-rewards', ok=abs(res.state_value[s] - want) < 1e-6,
                            witness=dict(gamma=g, s=s, got=float(res.state_value[s]), want=want)))
        traj = o.run_on(mdp, initial_state=2, rng=random.Random(k))
        out.append(dict(name='rt:Option.run_on:ends-at-the-subgoal', ok=traj.state[-1] == 5 and 5 not in traj.state[:-1], witness=dict(states=repr(traj.state))))
    return out


def tasks(tier, seed):
    T = []
    sk2 = M.family_basic('quick')[1]      # s2-explicit
    sk3 = M.family_basic('quick')[2]      # s3-branch
    for sk in (sk2, sk3):
        for bk in ('class-discount', 'instance-discount', 'quick'):
            for mask in range(32):
                if tier == 'quick' and sk is sk3 and bk == 'quick' and mask not in (0, 31, 8, 16):
                    continue
                T.append(Task('augment/%s/%s/mask%02d' % (sk.name, bk, mask), h_augment, (sk, bk, mask, False), tier='B'))
            if bk != 'quick':
                T.append(Task('augment/%s/%s/list-overrides' % (sk.name, bk), h_augment, (sk, bk, 0, True), tier='B'))
    cor = corridor()
    for pk in ('right', 'mixed'):
        for terminal in ((4,), (3, 4), (0,)):
            for start in (0, 1, 3):
                for ms in ((2, 4, 6) if tier == 'quick' else (1, 2, 3, 4, 5, 6)):
                    if pk == 'mixed' and ms > 4 and tier == 'quick':
                        continue
                    T.append(Task('option_run/%s/term%s/start%d/max%d' % (pk, '-'.join(map(str, terminal)), start, ms), h_option_run, (cor, pk, terminal, start, ms),
                                  tier='B', max_paths=5000))
    for subgoals, initial in (((4,), (0, 1)), ((1, 3), (0,))):
        for inc in (False, True):
            for clip in (False, True):
                T.append(Task('sub_task/goals%s/inc%d/clip%d' % ('-'.join(map(str, subgoals)), inc, clip), h_sub_task, (cor, subgoals, initial, inc, clip), tier='B'))
    for pk in ('right', 'mixed'):
        for nsim in (1, 2):
            for inc in (False, True):
                T.append(Task('semimdp/%s/n%d/inc%d' % (pk, nsim, inc), h_semimdp, (cor, pk, (4,), 1, nsim, inc), tier='B', max_paths=6000))
    T.append(Task('rt/plan-to-subgoal', rt_plan_to_subgoal, (seed, 6 if tier == 'quick' else 30), tier='R', kind='rt'))
    return T


MANIFEST_ENTRY = dict(
    category='other',
    text=('Contracts on augment (complete case analysis over all subsets of overridden components, for class-level, instance-level and Quick bases: '
          'every non-overridden component, the discount rate and the lists equal the base), Option.run_on (stops exactly at the first declared-terminal '
          'state, raises only at its step limit, frame), PlanToSubgoalOption.sub_task (clipping, absorbing set, initial distribution, discount) and the '
          'semi-MDP (primitive outcomes with duration 1; option outcome distribution = empirical distribution of its own simulations; marginals).'),
    note='Bounded skeletons, option step limits <=6, simulation counts <=2 (tier B); run-time tier for planning with the base discount.',
)
END_MANIFEST_ENTRY = True
