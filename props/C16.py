"""C16 -- multichain policy iteration, when it reports convergence, is gain/value optimal."""
import math, itertools, random as _random, contextlib
from fractions import Fraction
import numpy as np
from symrun import core as S
from symrun.driver import Task, Sentinel
from symrun.patch import patched
from symrun.npf import NP, sym_array, SymArray
from specs import mdpspec as M
from specs.mdpspec import Skel

import msdm.algorithms.multichainpolicyiteration as mc

FILES = ['msdm/algorithms/multichainpolicyiteration.py']
FUNCTIONS = ['msdm.algorithms.multichainpolicyiteration.multichain_policy_iteration_vectorized', 'msdm.algorithms.multichainpolicyiteration.independent_row_indices',
             'msdm.algorithms.multichainpolicyiteration.MultichainPolicyIteration.plan_on']
ASSUMPTIONS = [
    'requires: no dead ends (every non-absorbing state has an action)',
    'tier B: MDP skeletons (<=4 states; unichain and multichain, with and without absorbing states, state-dependent action sets), transition probabilities and discount generic '
    'rationals, rewards symbolic; the whole real loop runs natively (iteration caps 2, 3 and 50), linear solves on numeral Gram matrices are exact rational eliminations',
    'independent_row_indices decides rank by isclose(det, 0) -- evaluated exactly on rationals here; its numerical robustness on floats is NOT decided',
    'optimal discounted values: Bellman optimality recursion / equations; optimal gain: maximum over all deterministic policies of the policy gain, each pinned by its '
    'evaluation equations as ghost constraints (multichain optimality: a deterministic policy attains the optimal gain in every state, Puterman 1994 Thm 9.1.8; trusted)',
    'an UnboundLocalError when the iteration budget runs out during a gain-improvement step is outside the property (which is conditional on reported convergence)',
]
LEMMAS = ['existence of a deterministic gain-optimal policy (trusted)', 'uniqueness of the gain of a stationary policy (trusted)']
NOT_DECIDED = ['convergence itself (the bias step may cycle)', 'numerical rank decisions on floats']
EXPLANATION = 'C16: the whole real multichain policy iteration on skeletons with symbolic rewards; reported convergence implies optimal discounted values / optimal gain, policy on available actions attaining them.'


def skeletons(tier):
    A2 = ('a', 'b')
    F = [
        Skel('c2-unichain', [0, 1], {0: A2, 1: ('a',)}, {(0, 'a'): (0, 1), (0, 'b'): (1,), (1, 'a'): (0,)}, init=[0]),
        Skel('c3-multichain', [0, 1, 2], {0: A2, 1: ('a',), 2: ('a', 'b')},
             {(0, 'a'): (1,), (0, 'b'): (2,), (1, 'a'): (1,), (2, 'a'): (2,), (2, 'b'): (2, 0)}, init=[0]),
        Skel('c3-absorbing', [0, 1, 'g'], {0: A2, 1: ('b',), 'g': ('a',)},
             {(0, 'a'): (1, 'g'), (0, 'b'): ('g',), (1, 'b'): ('g', 0), ('g', 'a'): ('g',)}, absorbing=['g'], init=[0, 1]),
    ]
    if tier == 'thorough':
        F.append(Skel('c4', [0, 1, 2, 3], {0: A2, 1: A2, 2: ('a',), 3: ('b',)},
                      {(0, 'a'): (1, 2), (0, 'b'): (3,), (1, 'a'): (0,), (1, 'b'): (2,), (2, 'a'): (2,), (3, 'b'): (3, 0)}, init=[0]))
    return F


def det_policies(sk):
    sts = [s for s in sk.states]
    return [dict(zip(sts, ch)) for ch in itertools.product(*[sk.actions[s] for s in sts])]


def optimal_discounted(sk, v):
    W = {s: (0 if s in sk.absorbing else S.real('ghost_W_%s' % (s,))) for s in sk.states}
    for s in sk.states:
        if s not in sk.absorbing:
            S.assume(S.eq(W[s], S.Max([M.spec_Q(v, s, a, W) for a in sk.actions[s]])))
    return W


def policy_gain(sk, v, pol, tag):
    """gain g of the deterministic policy: (P - I) g = 0, g + (I - P) h = r with absorbing rows zeroed (ghost; g is unique)"""
    sts = list(sk.states)
    g = {s: S.real('ghost_g_%s_%s' % (tag, s)) for s in sts}
    h = {s: S.real('ghost_h_%s_%s' % (tag, s)) for s in sts}
    for s in sts:
        if s in sk.absorbing:
            S.assume(S.eq(g[s], 0))
            S.assume(S.eq(h[s], 0))
            continue
        a = pol[s]
        r = S.Sum(v.T[(s, a, n)] * v.R[(s, a, n)] for n in sk.supp[(s, a)])
        S.assume(S.eq(g[s], S.Sum(v.T[(s, a, n)] * g[n] for n in sk.supp[(s, a)])))
        S.assume(S.eq(g[s] + h[s], r + S.Sum(v.T[(s, a, n)] * h[n] for n in sk.supp[(s, a)])))
    return g


@contextlib.contextmanager
def facades():
    with M.facades(mc):
        yield


def h_plan(sk, gamma_kind, maxit):
    mdp, v = M.make_mdp(sk, gamma=gamma_kind, numeric='generic', nseed=4)
    undisc = gamma_kind == 'one'
    # the improvement tests use np.isclose (atol 1e-8, rtol 1e-5): "numerical near-ties aside" -> rewards bounded, optimality up to the slack those tolerances imply
    for k_ in v.R:
        if isinstance(v.R[k_], S.SymReal):
            S.assume(S.And(S.le(-10, v.R[k_]), S.le(v.R[k_], 10)))
    gfl = 1.0 if undisc else float(S.concrete_value(v.gamma)) if S.symbolic() else float(v.gamma)
    slack = S.const(Fraction(1, 1000)) if undisc else S.const(Fraction(int(1e6 * (1e-8 + 1e-5 * 10 / (1 - gfl)) / (1 - gfl) * 2) + 1, 10 ** 6))
    with facades():
        try:
            res = mc.MultichainPolicyIteration(max_iterations=maxit).plan_on(mdp)
        except UnboundLocalError:
            raise S.PathEnd()        # budget exhausted inside a gain-improvement step: no convergence reported, nothing to check
        sl, al = list(mdp.state_list), list(mdp.action_list)
        S.check('plan_on:convergence-flag-means-the-loop-left-by-break-before-the-cap', S.truth(bool(res.converged) == (res.iterations < maxit - 1)))
        S.check('plan_on:initial-gain/value-are-initial-distribution-expectations', S.And(
            [S.eq(res.initial_gain, S.Sum(v.p0[s] * res.state_gain[s] for s in sk.init)), S.eq(res.initial_value, S.Sum(v.p0[s] * res.state_value[s] for s in sk.init))]))
        if not res.converged:
            return
        # numerical near-ties aside: the loop compares with isclose(rtol 1e-5, atol 1e-8) and the wrapper with atol 1e-10; action values that differ by a
        # tolerance-sized amount are excluded (assumed away), exact ties and clear differences remain
        gap = S.const(Fraction(1, 1000))
        for s in sl:
            for tab in (res.action_gain, res.action_value):
                vals = [tab[s][a] for a in al]
                for x, y in itertools.combinations(vals, 2):
                    x, y = S.as_real(x), S.as_real(y)
                    if x.k != S.FIN or y.k != S.FIN:
                        continue
                    S.assume(S.Or(S.eq(x, y), S.lt(gap, abs(x - y))))
        okp = []
        pol = {}
        for s in sl:
            d = res.policy[s]
            sup = [a for a in al if _positive(d.prob(a))]     # forks on symbolic probabilities
            okp.append(S.truth(len(sup) >= 1 and (set(sup) <= set(sk.actions[s]) or s in sk.absorbing)))
            okp.append(S.eq(S.Sum(d.prob(a) for a in al), 1))
            pol[s] = sup
        S.check('converged:policy-gives-positive-probability-only-to-available-actions', S.And(okp))
        if not undisc:
            W = optimal_discounted(sk, v)
            S.check('converged(discounted):state-values-equal-the-optimal-discounted-values', S.And([S.le(abs(res.state_value[s] - W[s]), slack) for s in sl]))
            # exact evaluation of the returned policy attains them
            J = {s: (0 if s in sk.absorbing else S.real('ghost_J_%s' % (s,))) for s in sl}
            for s in sl:
                if s not in sk.absorbing:
                    acts = [a for a in pol[s] if a in sk.actions[s]]
                    S.assume(S.eq(J[s], S.Sum(res.policy[s].prob(a) * M.spec_Q(v, s, a, J) for a in acts)))
            S.check('converged(discounted):returned-policy-attains-the-optimal-values-when-evaluated-exactly', S.And([S.le(abs(J[s] - W[s]), slack) for s in sl]))
        else:
            gains = [policy_gain(sk, v, p, str(i)) for i, p in enumerate(det_policies(sk))]
            S.check('converged(undiscounted):state-gain-equals-the-optimal-long-run-average-reward', S.And(
                [S.le(abs(res.state_gain[s] - S.Max([g[s] for g in gains])), slack) for s in sl]))
            # a deterministic selection of the returned policy attains it
            sel = {s: [a for a in pol[s] if a in sk.actions[s]][0] for s in sl}
            gsel = policy_gain(sk, v, sel, 'ret')
            S.check('converged(undiscounted):returned-policy-attains-the-optimal-gain', S.And([S.le(abs(gsel[s] - S.Max([g[s] for g in gains])), slack) for s in sl]))


def _positive(x):
    if isinstance(x, S.SymReal):
        if x.k != S.FIN:
            return True        # nan / inf rows are reported by the normalisation clause
        return bool(x > 0)
    return float(x) > 0


def _zero(x):
    if isinstance(x, S.SymReal):
        c = S.concrete_value(x)
        return c is not None and c == 0
    return float(x) == 0.0


def h_rows():
    m = np.array([[1.0, 0, 0], [2.0, 0, 0], [0, 1.0, 0], [1.0, 1.0, 0]])
    S.check('independent_row_indices:maximal-independent-subset-in-order', S.truth(mc.independent_row_indices(m) == [0, 2]))


def rt_real(seed, n):
    """R: random small MDPs (unichain / multichain, discounted / undiscounted) on floats: optimum by enumeration of all deterministic policies"""
    import random, warnings
    from msdm.core.mdp import QuickTabularMDP
    from msdm.core.distributions import DictDistribution
    rnd = random.Random(seed)
    out = []
    # fixed cases with an ABSORBING state: a recurrent class that pays every step, and a one-off exit to the absorbing state that pays more than one step of
    # staying (state 0 -> 1; at 1: stay (+pay) or leave to the absorbing 2 (+lump)).  Undiscounted, the improvement step can oscillate between the two;
    # a planner that stops on a repeated policy and reports convergence reports the gain of whichever policy it evaluated last.
    fixed = []
    for pay, lump, pexit, g_ in ((1., 100., 1., 1.0), (1., 100., 1., 0.95), (1., 3., 1., 1.0), (2., 5., .5, 1.0), (1., 100., 1., 0.5)):
        fixed.append((3, {0: ('u',), 1: ('u', 'v'), 2: ('u',)},
                      {(0, 'u'): {1: 1.}, (1, 'u'): {1: 1.}, (1, 'v'): ({2: 1.} if pexit == 1. else {2: pexit, 1: 1 - pexit}), (2, 'u'): {2: 1.}},
                      {(1, 'u', 1): pay, (1, 'v', 2): lump, (1, 'v', 1): 0.}, {2}, g_))
    for k in range(n + len(fixed)):
        if k >= n:
            Sn, acts, T, R, absorbing, g = fixed[k - n]
        else:
            absorbing = set()
            Sn = rnd.choice([2, 3, 4])
            acts = {s: tuple(rnd.sample(['u', 'v', 'w'], rnd.choice([1, 2]))) for s in range(Sn)}
            T, R = {}, {}
            for s in range(Sn):
                for a in acts[s]:
                    sup = rnd.sample(range(Sn), rnd.choice([1, 2]) if Sn > 1 else 1)
                    ws = [rnd.choice([1, 2, 3]) for _ in sup]
                    T[(s, a)] = {n_: w / sum(ws) for n_, w in zip(sup, ws)}
                    for n_ in sup:
                        R[(s, a, n_)] = float(rnd.choice([-2, -1, 0, 1, 3]))
            g = rnd.choice([0.5, 0.9, 1.0])
        mdp = QuickTabularMDP(next_state_dist=lambda s, a: DictDistribution(T[(s, a)]), reward=lambda s, a, ns: R.get((s, a, ns), 0.), actions=lambda s: acts[s],
                              initial_state_dist=DictDistribution({s: (1 / (Sn - len(absorbing)) if s not in absorbing else 0.) for s in range(Sn)}),
                              is_absorbing=lambda s: s in absorbing, discount_rate=g)
        w = dict(T=repr(T), R=repr(R), acts=repr(acts), gamma=g, absorbing=sorted(absorbing))
        try:
            with warnings.catch_warnings():
                warnings.simplefilter('ignore')
                if len(mdp.state_list) != Sn:
                    continue
                res = mc.MultichainPolicyIteration(max_iterations=200 if k < n else 40).plan_on(mdp)
        except UnboundLocalError:
            continue
        if not res.converged:
            continue
        okact = all(res.policy[s].prob(a) == 0 or a in acts[s] for s in range(Sn) for a in mdp.action_list)
        out.append(dict(name='rt:MPI:converged=>policy-only-on-available-actions', ok=okact, witness=w))
        best_gain = [-math.inf] * Sn
        best_val = [-math.inf] * Sn
        for ch in itertools.product(*[acts[s] for s in range(Sn)]):
            P = np.zeros((Sn, Sn)); r = np.zeros(Sn)
            for s in range(Sn):
                if s in absorbing:
                    P[s, s] = 1.            # the episode has ended: nothing more is collected
                    continue
                for n_, p in T[(s, ch[s])].items():
                    P[s, n_] += p
                    r[s] += p * R.get((s, ch[s], n_), 0.)
            if g < 1:
                val = np.linalg.solve(np.eye(Sn) - g * P, r)
                best_val = [max(x, y) for x, y in zip(best_val, val)]
            else:
                # gain of the policy from its evaluation equations ((I-P)g = 0, g + (I-P)h = r), least squares: g is unique (also for periodic chains)
                Ieye = np.eye(Sn)
                Asys = np.block([[Ieye - P, np.zeros((Sn, Sn))], [Ieye, Ieye - P]])
                sol = np.linalg.lstsq(Asys, np.concatenate([np.zeros(Sn), r]), rcond=None)[0]
                gain = sol[:Sn]
                best_gain = [max(x, y) for x, y in zip(best_gain, gain)]
        if g < 1:
            out.append(dict(name='rt:MPI:converged(discounted)=>state-values-optimal', ok=all(abs(res.state_value[s] - best_val[s]) < 1e-6 for s in range(Sn)),
                            witness=dict(w, got=[float(res.state_value[s]) for s in range(Sn)], want=best_val)))
        else:
            out.append(dict(name='rt:MPI:converged(undiscounted)=>state-gain-optimal', ok=all(abs(res.state_gain[s] - best_gain[s]) < 1e-4 for s in range(Sn)),
                            witness=dict(w, got=[float(res.state_gain[s]) for s in range(Sn)], want=[float(x) for x in best_gain])))
    return out


def tasks(tier, seed):
    T = []
    for sk in skeletons(tier):
        for gk in ('sym', 'one'):
            for maxit in (2, 3, 50):
                if tier == 'quick' and maxit == 3 and sk.name != 'c3-multichain':
                    continue
                if tier == 'quick' and maxit == 50 and sk.name == 'c3-multichain' and gk == 'one':
                    continue      # ~200 s; kept in the thorough tier
                T.append(Task('plan_on/%s/%s/maxit%d' % (sk.name, 'discounted' if gk == 'sym' else 'undiscounted', maxit), h_plan, (sk, gk, maxit), tier='B',
                              max_paths=6000, deadline_s=500, vc_timeout_ms=30000))
    T.append(Task('independent_rows', h_rows, (), tier='B'))
    T.append(Task('rt/enumeration', rt_real, (seed, 60 if tier == 'quick' else 400), tier='R', kind='rt', deadline_s=600))
    from specs import reuse as _reuse
    T.append(Task('rt/object-reuse', _reuse.rt_planner_reuse, ('C16', ['MultichainPolicyIteration'], seed), tier='R', kind='rt', note='planner objects, earlier results and model objects across calls'))
    return T


MANIFEST_ENTRY = dict(
    category='other',
    text=('The whole real multichain policy iteration (gain/bias evaluation through the minimum-norm Gram solve, both improvement steps, the wrapper) runs on MDP skeletons '
          'with symbolic rewards; whenever it REPORTS convergence z3 proves: policy mass only on available actions, discounted state values = optimal values (ghost Bellman '
          'optimality equations) and attained by the exactly evaluated returned policy; undiscounted per-state gain = maximum over all deterministic policies of the policy gain '
          '(each pinned by its evaluation equations) and attained by the returned policy; the convergence flag means the loop left before the cap. Run-time tier by policy enumeration.'),
    note='Bounded skeletons and iteration caps (tier B); rank decisions exact on rationals (float robustness not decided); convergence itself not decided.',
)
END_MANIFEST_ENTRY = True


SENTINELS = globals().get('SENTINELS', []) + [
    Sentinel('policy-from-bias-maximisers-only', 'msdm.algorithms.multichainpolicyiteration', '        policy_matrix = gain_max_actions & bias_max_actions\n',
             '        policy_matrix = bias_max_actions & mdp.action_matrix.astype(bool)\n', ['plan_on/c3-multichain/undiscounted/maxit3']),
]
