"""C05 -- A* and breadth-first search return valid minimum-cost / minimum-step paths."""
import math, itertools, random as _random, contextlib
import numpy as np
from symrun import core as S
from symrun.driver import Task, Sentinel
from symrun.patch import patched
from symrun.rngf import DemonicRng, Tripwire

import msdm.algorithms.search as se
import msdm.core.mdp.deterministic_shortest_path as dsp_mod
from msdm.core.mdp.quickmdp import QuickMDP
from msdm.core.distributions import DictDistribution, DeterministicDistribution, UniformDistribution

FILES = ['msdm/algorithms/search.py', 'msdm/core/mdp/deterministic_shortest_path.py']
FUNCTIONS = ['msdm.algorithms.search.reconstruct_path', 'msdm.algorithms.search.camefrom_to_policy', 'msdm.algorithms.search.make_shuffled',
             'msdm.algorithms.search.BreadthFirstSearch.plan_on', 'msdm.algorithms.search.AStarSearch.plan_on', 'msdm.algorithms.search.AStarSearch.__init__',
             'msdm.core.mdp.deterministic_shortest_path.DeterministicShortestPathProblem.from_mdp',
             'msdm.core.mdp.deterministic_shortest_path.DeterministicShortestPathProblem.next_state_dist',
             'msdm.core.mdp.deterministic_shortest_path.DeterministicShortestPathProblem.initial_state_dist']
ASSUMPTIONS = [
    'edge costs are arbitrary non-negative reals (superset of the non-negative integers of the property); heuristic: any consistent h with h=0 at goals',
    'tier B: the digraph skeleton family of props/C05.py (<=4 nodes quick, <=5 thorough; self-loops, zero-cost cycles, several goals, unreachable goals)',
    'demonic generator: every tie-break value and every action shuffle (all seeds); heapq / tuple comparison executed by CPython itself',
    'user callbacks (heuristic) are total, deterministic, side-effect free',
]
LEMMAS = []
NOT_DECIDED = ['graphs beyond the skeleton family']
EXPLANATION = 'C05: AStarSearch.plan_on / BreadthFirstSearch.plan_on / from_mdp on digraph skeletons with symbolic costs and heuristics; optimality proved per path against the enumerated simple-path minimum.'


class G:
    def __init__(self, name, edges, goals, start=0):
        self.name = name
        self.edges = {s: list(v) for s, v in edges.items()}   # s -> list of successors (action index = position)
        self.goals = set(goals)
        self.start = start
        self.nodes = sorted(set(edges) | {n for v in edges.values() for n in v} | self.goals | {start})

    def reachable_goal(self):
        seen, st = {self.start}, [self.start]
        while st:
            s = st.pop()
            if s in self.goals:
                continue
            for n in self.edges.get(s, []):
                if n not in seen:
                    seen.add(n)
                    st.append(n)
        return seen

    def simple_paths(self):
        """all simple paths (as lists of (s, action_index, ns)) from start to a goal; expansion stops at goals"""
        out = []

        def rec(s, seen, acc):
            if s in self.goals:
                out.append(list(acc))
                return
            for ai, n in enumerate(self.edges.get(s, [])):
                if n in seen:
                    continue
                acc.append((s, ai, n))
                rec(n, seen | {n}, acc)
                acc.pop()
        rec(self.start, {self.start}, [])
        return out


def family(tier, seed):
    F = [
        G('start-is-goal', {0: [1], 1: [0]}, [0]),
        G('line3', {0: [1], 1: [2], 2: [2]}, [2]),
        G('diamond', {0: [1, 2], 1: [3], 2: [3], 3: []}, [3]),
        G('shortcut', {0: [1, 2], 1: [2], 2: [3], 3: []}, [3]),          # non-bipartite: 1 and 2 at the same depth, joined
        G('selfloop+cycle', {0: [0, 1], 1: [0, 2], 2: []}, [2]),
        G('two-goals', {0: [1, 2], 1: [3], 2: [2, 3], 3: []}, [1, 3]),
        G('unreachable-goal', {0: [1], 1: [0], 2: [2]}, [2]),
        G('dead-end', {0: [1, 2], 1: [], 2: [3], 3: []}, [3]),
        G('complete4', {s: [n for n in range(4) if n != s] for s in range(4)}, [3]),
        G('revise', {0: [1, 2], 1: [3], 2: [1], 3: []}, [3]),           # node 1 reached twice with different cost
        G('parallel-edges', {0: [1, 1], 1: [2, 2], 2: []}, [2]),
        G('hopeless-revise', {0: [2, 1], 1: [1], 2: [1], 3: []}, [3]),   # unreachable goal; the dead-end cycle at 1 is reached twice, the second time more cheaply
    ]
    if tier == 'thorough':
        rnd = _random.Random(seed)
        for k in range(12):
            n = rnd.choice([3, 4, 5])
            edges = {s: [rnd.randrange(n) for _ in range(rnd.choice([0, 1, 2, 3]))] for s in range(n)}
            F.append(G('rand%d-%d' % (seed, k), edges, [n - 1]))
    return F


def hopeless(g):
    """nodes from which no goal can be reached: their EXACT heuristic is infinite"""
    ok = set(g.goals)
    changed = True
    while changed:
        changed = False
        for s in g.nodes:
            if s not in ok and any(n in ok for n in g.edges.get(s, [])):
                ok.add(s)
                changed = True
    return {s for s in g.nodes if s not in ok}


def build(g, kind, hmode='sym'):
    """the problem object handed to the planners, in the requested representation"""
    cost = {}
    for s in g.nodes:
        for ai, n in enumerate(g.edges.get(s, [])):
            cost[(s, ai)] = S.real('c_%s_%s' % (s, ai), 0, None)
    h = {}
    inf_at = hopeless(g) if hmode == 'inf-at-hopeless' else set()       # the exact cost-to-go of a state that cannot reach a goal is +inf (consistent)
    for s in g.nodes:
        h[s] = 0 if s in g.goals else (math.inf if s in inf_at else S.real('h_%s' % s, 0, None))
    # consistency: h(s) <= c(s,a) + h(ns)
    for s in g.nodes:
        if s in g.goals or s in inf_at:
            continue         # every successor of a hopeless state is hopeless: inf <= c + inf
        for ai, n in enumerate(g.edges.get(s, [])):
            if n not in inf_at:
                S.assume(S.le(h[s], cost[(s, ai)] + h[n]))
    actions = lambda s: tuple(range(len(g.edges.get(s, []))))
    nxt = lambda s, a: g.edges[s][a]
    reward = lambda s, a, ns: -cost[(s, a)]
    is_abs = lambda s: s in g.goals
    if kind == 'dsp':
        class P(dsp_mod.DeterministicShortestPathProblem):
            def next_state(self, s, a): return nxt(s, a)
            def initial_state(self): return g.start
            def actions(self, s): return actions(s)
            def reward(self, s, a, ns): return reward(s, a, ns)
            def is_absorbing(self, s): return is_abs(s)
        prob = P()
    elif kind == 'next_state':
        prob = QuickMDP(next_state=nxt, reward=reward, actions=actions, initial_state=g.start, is_absorbing=is_abs)
    elif kind == 'detdist':
        prob = QuickMDP(lambda s, a: DeterministicDistribution(nxt(s, a)), reward=reward, actions=actions,
                        initial_state_dist=DeterministicDistribution(g.start), is_absorbing=is_abs)
    elif kind == 'dictdist':
        prob = QuickMDP(lambda s, a: DictDistribution({nxt(s, a): 1.0}), reward=reward, actions=actions,
                        initial_state_dist=DictDistribution({g.start: 1.0}), is_absorbing=is_abs)
    elif kind == 'uniform':
        prob = QuickMDP(lambda s, a: UniformDistribution([nxt(s, a)]), reward=reward, actions=actions,
                        initial_state_dist=UniformDistribution([g.start]), is_absorbing=is_abs)
    else:
        raise ValueError(kind)
    return prob, cost, h


@contextlib.contextmanager
def facades(uses):
    with patched((se, dict(random=Tripwire('random', uses)))):
        yield


def check_path(g, res, cost, prefix, want_cost):
    path = res.path
    ok = [S.truth(path[0] == g.start), S.truth(path[-1] in g.goals)]
    tot = 0
    for k in range(len(path) - 1):
        s = path[k]
        ok.append(S.truth(s not in g.goals))
        a = res.policy.action_dist(s).sample()
        ok.append(S.truth(a in range(len(g.edges.get(s, []))) and g.edges[s][a] == path[k + 1]))
        if a in range(len(g.edges.get(s, []))):
            tot = tot + cost[(s, a)]
    S.check(prefix + ':path-starts-at-start,follows-real-transitions-under-the-policy,ends-absorbing', S.And(ok))
    S.check(prefix + ':visited-are-reachable-non-absorbing-states', S.truth(set(res.visited) <= (g.reachable_goal() - g.goals)))
    return tot


def h_astar(g, kind, tie, shuffle, hmode='sym'):
    prob, cost, h = build(g, kind, hmode)
    uses = []
    with facades(uses):
        planner = se.AStarSearch(heuristic_value=lambda s: -h[s], seed=1 if (tie == 'random' or shuffle) else None,
                                 randomize_action_order=shuffle, tie_breaking_strategy=tie)
        res = planner.plan_on(prob)
    paths = g.simple_paths()
    if not paths:
        S.check('A*:no-plan-iff-no-absorbing-state-reachable', S.truth(res is None))
        return
    S.check('A*:no-plan-iff-no-absorbing-state-reachable', S.truth(res is not None))
    if res is None:
        return
    tot = check_path(g, res, cost, 'A*', True)
    delta = S.Min([S.Sum(cost[(s, ai)] for s, ai, n in p) if p else 0 for p in paths])
    S.check('A*:reported-path-value-is-the-cost-of-the-returned-path', S.eq(res.path_value, tot))
    S.check('A*:returned-path-has-minimum-total-cost', S.eq(tot, delta))
    S.check('A*:only-the-private-seeded-generator-is-used', S.truth(not [u for u in uses if 'Random' not in u]))
    S.check('mustfail:cost-is-zero', S.eq(tot, -1))


def h_bfs(g, kind, shuffle):
    prob, cost, h = build(g, kind)
    uses = []
    with facades(uses):
        res = se.BreadthFirstSearch(seed=3 if shuffle else None, randomize_action_order=shuffle).plan_on(prob)
    paths = g.simple_paths()
    S.check('BFS:no-plan-iff-no-absorbing-state-reachable', S.truth((res is None) == (not paths)))
    if res is None or not paths:
        return
    check_path(g, res, cost, 'BFS', False)
    S.check('BFS:returned-path-has-minimum-number-of-steps', S.truth(len(res.path) - 1 == min(len(p) for p in paths)))


def h_from_mdp_nondeterministic():
    """AssertionError iff some support has size != 1"""
    prob = QuickMDP(lambda s, a: DictDistribution({0: S.real('p', 0, 1, lo_strict=True, hi_strict=True), 1: 0.5}), reward=-1, actions=(0,),
                    initial_state_dist=DictDistribution({0: 1.0}), is_absorbing=lambda s: s == 1)
    d = dsp_mod.DeterministicShortestPathProblem.from_mdp(prob)
    try:
        d.next_state(0, 0)
        ok = False
    except AssertionError:
        ok = True
    S.check('from_mdp:non-deterministic-transition-is-rejected', S.truth(ok))
    S.check('from_mdp:passes-through-a-DSP', S.truth(dsp_mod.DeterministicShortestPathProblem.from_mdp(d) is d))
    S.check('from_mdp:actions/reward/is_absorbing-are-the-mdp-s', S.truth(d.actions(0) == (0,) and d.reward(0, 0, 1) == -1 and d.is_absorbing(1) and not d.is_absorbing(0)))


def h_reconstruct(n):
    camefrom = {i + 1: (i, 'a%d' % i) for i in range(n)}
    p = se.reconstruct_path(camefrom, 0, n)
    S.check('reconstruct_path:start..terminal-along-camefrom-edges', S.truth(p == list(range(n + 1))))
    pol = se.camefrom_to_policy(p, camefrom, None)
    S.check('camefrom_to_policy:action-of-each-path-edge', S.truth(all(pol.action_dist(i).sample() == 'a%d' % i for i in range(n))))


def rt_real_seeds(seed, n):
    """R: real random.Random seeds, concrete integer costs; same clauses (replay vehicle for the symbolic tasks)"""
    rnd = _random.Random(seed)
    out = []
    fam = family('thorough', seed)
    for i in range(n):
        g = fam[i % len(fam)]
        kind = rnd.choice(['dsp', 'next_state', 'detdist', 'dictdist', 'uniform'])
        tie = rnd.choice(['lifo', 'fifo', 'random'])
        sh = rnd.random() < .5
        for hfun, args in ((h_astar, (g, kind, tie, sh)), (h_bfs, (g, kind, sh))):
            rp = S.run_concrete(hfun, args, _IntModel(rnd), rng=rnd)
            for c in rp['checks']:
                if c['name'].startswith('mustfail'):
                    continue
                out.append(dict(name='rt:' + c['name'], ok=c['status'] == 'proved', detail=str(c.get('detail'))[:600],
                                witness=dict(graph=g.name, edges=repr(g.edges), goals=repr(g.goals), kind=kind, tie=tie, shuffle=sh, inputs=rp.get('inputs'))))
    return out


class _IntModel(dict):
    def __init__(self, rnd):
        self.rnd = rnd

    def get(self, k, d=None):
        if k not in self:
            if k.startswith('c_'):
                self[k] = float(self.rnd.choice([0, 0, 1, 1, 2, 3, 5]))
            elif k.startswith('h_'):
                self[k] = 0.0
            else:
                return d
        return self[k]

    def items(self):
        return dict.items(self)


def tasks(tier, seed):
    T = []
    fam = family(tier, seed)
    kinds = ['dsp', 'next_state', 'detdist', 'dictdist', 'uniform']
    for gi, g in enumerate(fam):
        for ti, tie in enumerate(['lifo', 'fifo', 'random']):
            for sh in (False, True):
                if sh and g.name == 'complete4':
                    continue     # 4! shuffles per node x cost orderings: path explosion; shuffling is covered on the other graphs
                if sh and tie == 'random' and g.name.startswith('rand'):
                    continue     # shuffles x random tie-break values on the generated graphs: > 6000 paths; both are covered separately there and jointly on the hand-made graphs
                kind = kinds[(gi + ti + sh) % len(kinds)] if tier == 'quick' else None
                for kd in ([kind] if kind else kinds):
                    mf = (g.name == 'diamond' and tie == 'lifo' and not sh)
                    T.append(Task('astar/%s/%s/%s/%s' % (g.name, tie, 'shuffle' if sh else 'ordered', kd), h_astar, (g, kd, tie, sh), tier='B',
                                  max_paths=6000, deadline_s=400, expect_fail=('mustfail:cost-is-zero',)))
        if hopeless(g):
            for tie in ('lifo', 'fifo', 'random'):
                T.append(Task('astar/%s/%s/ordered/dsp/exact-infinite-heuristic-at-hopeless-states' % (g.name, tie), h_astar, (g, 'dsp', tie, False, 'inf-at-hopeless'), tier='B',
                              max_paths=6000, deadline_s=400, expect_fail=('mustfail:cost-is-zero',)))
        for sh in (False, True):
            for kd in (kinds if tier == 'thorough' else [kinds[(gi + sh) % len(kinds)], 'dictdist']):
                T.append(Task('bfs/%s/%s/%s' % (g.name, 'shuffle' if sh else 'ordered', kd), h_bfs, (g, kd, sh), tier='B'))
    T.append(Task('from_mdp/nondeterministic', h_from_mdp_nondeterministic, (), tier='B'))
    for order in (('m1', 'm2'), ('m2', 'm1')):
        T.append(Task('from_mdp/two-conversions-alive/' + '-'.join(order), h_two_conversions, (order,), tier='B'))
    for n in (1, 3):
        T.append(Task('reconstruct/n%d' % n, h_reconstruct, (n,), tier='B'))
    T.append(Task('rt/real-seeds', rt_real_seeds, (seed, 60 if tier == 'quick' else 600), tier='R', kind='rt'))
    from specs import reuse as _reuse
    T.append(Task('rt/object-reuse', _reuse.rt_planner_reuse, ('C05', ['AStarSearch', 'BreadthFirstSearch'], seed), tier='R', kind='rt', note='planner objects, earlier results and model objects across calls'))
    return T


MANIFEST_ENTRY = dict(
    category='other',
    text=('Contracts on AStarSearch.plan_on, BreadthFirstSearch.plan_on, reconstruct_path, camefrom_to_policy and '
          'DeterministicShortestPathProblem.from_mdp. The real algorithms (incl. heapq and tuple comparison, executed by CPython) run on digraph '
          'skeletons with ALL non-negative edge costs, ALL consistent heuristics, all tie-break values / action shuffles (demonic generator); '
          'validity of the path and equality of its cost with the minimum over all simple paths is proved by z3 on every explored path.'),
    note='Bounded digraph family (tier B); costs are reals >= 0; every representation of deterministic MDPs (next_state, Deterministic/Dict/Uniform distribution).',
)
END_MANIFEST_ENTRY = True


SENTINELS = globals().get('SENTINELS', []) + [
    Sentinel('bfs-forgets-the-predecessor-of-later-states', 'msdm.algorithms.search', '                if ns not in visited and ns not in queue:\n                    queue.append(ns)\n                    camefrom[ns] = (s, a)',
             '                if ns not in visited and ns not in queue:\n                    queue.append(ns)\n                camefrom[ns] = (s, a)', ['re:^bfs/(shortcut|revise|selfloop)']),
]


def h_two_conversions(order):
    """two deterministic MDPs converted by from_mdp and BOTH kept alive: each converted problem keeps the components of ITS OWN MDP (a later conversion
    must not re-point an earlier one), and planning on the first after converting the second is still optimal for the first"""
    m1 = QuickMDP(lambda s, a: DictDistribution({{('s', 'a'): 'x', ('s', 'b'): 'g', ('x', 'a'): 'g', ('g', 'a'): 'g'}[(s, a)]: 1.0}),
                  reward=lambda s, a, ns: {('s', 'a'): -1.0, ('s', 'b'): -5.0, ('x', 'a'): -1.0}.get((s, a), 0.0),
                  actions=lambda s: {'s': ('a', 'b'), 'x': ('a',), 'g': ('a',)}[s], initial_state_dist=DictDistribution({'s': 1.0}), is_absorbing=lambda s: s == 'g')
    m2 = QuickMDP(lambda s, a: UniformDistribution([{('s', 'c'): 'g', ('g', 'c'): 'g'}[(s, a)]]), reward=lambda s, a, ns: -7.0 if s == 's' else 0.0,
                  actions=lambda s: ('c',), initial_state_dist=UniformDistribution(['s']), is_absorbing=lambda s: s == 'g')
    ms = {'m1': m1, 'm2': m2}
    ds = {}
    for nm in order:
        ds[nm] = dsp_mod.DeterministicShortestPathProblem.from_mdp(ms[nm])
    d1, d2 = ds['m1'], ds['m2']
    S.check('from_mdp:each-converted-problem-keeps-the-components-of-its-own-MDP(both-alive)', S.truth(
        tuple(d1.actions('s')) == ('a', 'b') and tuple(d2.actions('s')) == ('c',) and d1.reward('s', 'b', 'g') == -5.0 and d2.reward('s', 'c', 'g') == -7.0 and
        d1.next_state('s', 'a') == 'x' and d2.next_state('s', 'c') == 'g' and d1.initial_state() == 's' and d1.is_absorbing('g') and not d1.is_absorbing('x')))
    for tie in ('lifo', 'fifo'):
        r1 = se.AStarSearch(tie_breaking_strategy=tie).plan_on(d1)
        S.check('A*:planning-on-the-first-converted-problem-after-converting-the-second-is-optimal-for-the-first', S.truth(
            r1 is not None and list(r1.path) == ['s', 'x', 'g'] and r1.path_value == 2.0))
    b1 = se.BreadthFirstSearch().plan_on(d1)
    S.check('BFS:planning-on-the-first-converted-problem-after-converting-the-second-is-valid', S.truth(b1 is not None and list(b1.path) == ['s', 'g']))
    # nested use: a heuristic that itself plans on ANOTHER converted problem while the outer search is running
    def nested_h(s):
        se.BreadthFirstSearch().plan_on(m2)
        return 0.0
    r = se.AStarSearch(heuristic_value=nested_h).plan_on(m1)
    S.check('A*:a-heuristic-that-plans-on-another-model-does-not-disturb-the-outer-search', S.truth(r is not None and list(r.path) == ['s', 'x', 'g'] and r.path_value == 2.0))
