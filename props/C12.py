"""C12 -- tables index like nested dictionaries over their field domains."""
import itertools, contextlib
import numpy as np
from symrun import core as S
from symrun.driver import Task, Sentinel
from symrun.patch import patched
from symrun.npf import NP, sym_array

import msdm.core.table.table as tbl
import msdm.core.table.tableindex as tix
import msdm.core.mdp.tables as mt
import msdm.core.mdp.tabularpolicy as tp
from msdm.core.table import Table, TableIndex, ProbabilityTable, domaintuple
from msdm.core.table.tableindex import DomainError

FILES = ['msdm/core/table/table.py', 'msdm/core/table/tableindex.py', 'msdm/core/mdp/tables.py', 'msdm/core/mdp/tabularpolicy.py']
FUNCTIONS = ['msdm.core.table.tableindex.domaintuple.index', 'msdm.core.table.tableindex.TableIndex._array_index', 'msdm.core.table.tableindex.TableIndex._updated_index',
             'msdm.core.table.tableindex.TableIndex._index_into_fields', 'msdm.core.table.tableindex.TableIndex._index_into_domain',
             'msdm.core.table.tableindex.TableIndex._pad_out_ellipses', 'msdm.core.table.tableindex.TableIndex.__eq__',
             'msdm.core.table.table.Table.__getitem__', 'msdm.core.table.table.Table.keys', 'msdm.core.table.table.Table.__len__', 'msdm.core.table.table.Table._validate_table',
             'msdm.core.table.table.AbstractTable.get', 'msdm.core.table.table.AbstractTable.items', 'msdm.core.table.table.AbstractTable.values',
             'msdm.core.table.table.ProbabilityTable.__getitem__', 'msdm.core.table.table.TableDistribution',
             'msdm.core.mdp.tables.StateTable.__getitem__', 'msdm.core.mdp.tables.StateTable.from_dict', 'msdm.core.mdp.tables.StateActionTable.from_dict',
             'msdm.core.mdp.tables.StateActionTable.from_state_action_lists', 'msdm.core.mdp.tabularpolicy.TabularPolicy.action_dist']
ASSUMPTIONS = [
    'cells are distinct symbolic constants: a returned cell is identified as a TERM, so "the cell at the positions of the keys" is an identity, not a numeric coincidence',
    'tier B, exhaustive inside the bound: 1..3 fields, domains drawn from the collision pool of props/C12.py (sizes 1..3 quick, 1..4 thorough), every full key, '
    'nested key, outer-key list (all ordered sub-lists up to length 3), slice/ellipsis form and a pool of foreign keys',
    'numpy basic/fancy indexing of object arrays is the real numpy',
]
LEMMAS = []
NOT_DECIDED = ['tables beyond the bound']
EXPLANATION = 'C12: Table / ProbabilityTable / StateTable indexing against the nested-dictionary reading of the field domains.'

POOL = ['a', 'b', ('a', 'b'), 0, None, frozenset([1]), 2.5, ('a',), 'ab', (0, 'a')]
FOREIGN = ['zz', 7, ('zz',), ('a', 'zz'), None, (), ('a', 'b', 'c', 'd'), 3.5, frozenset()]


def domain_sets(tier):
    D1 = [('a',), ('a', 'b'), (('a', 'b'), 'a', 'b'), (0, 2.5, None), (frozenset([1]), 'ab', ('a',))]
    D2 = [('b',), ('a', 'b'), (0, 'a'), ('b', ('a', 'b'), None)]
    D3 = [('x',), ('b', 'a')]
    if tier == 'thorough':
        D1.append((('a', 'b'), (0, 'a'), 'a', 0))
        D2.append((2.5, 'a', 'b', 0))
        D3.append(('a', 'b', 0))
    out = [(d,) for d in D1]
    out += [(a, b) for a in D1 for b in D2]
    out += [(a, b, c) for a in D1[:4] for b in D2[:3] for c in D3]
    return out


@contextlib.contextmanager
def facades():
    if not S.symbolic():
        yield
        return
    with patched((tbl, dict(np=NP)), (mt, dict(np=NP)), (tp, dict(np=NP))):
        yield


def cells(domains, tag='d'):
    shape = tuple(len(d) for d in domains)
    arr = np.empty(shape, dtype=object)
    for idx in np.ndindex(*shape):
        arr[idx] = S.real('%s_%s' % (tag, '_'.join(map(str, idx))))
    from symrun.npf import SymArray
    return (arr.view(SymArray) if S.symbolic() else arr.astype(float)), arr


def same(x, leaf):
    """x is exactly the cell `leaf` (term identity in symbolic mode, equality in concrete mode)"""
    return S.eq(x, leaf)


def h_table(domains, cls_name):
    names = tuple('f%d' % i for i in range(len(domains)))
    with facades():
        data, leaf = cells(domains)
        cls = {'Table': Table, 'ProbabilityTable': ProbabilityTable}[cls_name]
        t = cls(data=data, table_index=TableIndex(field_names=names, field_domains=domains))
        n = len(domains)
        # 1. full keys and nested keys
        ok_full, ok_nested = [], []
        for idx in np.ndindex(*leaf.shape):
            key = tuple(domains[f][i] for f, i in enumerate(idx))
            want = leaf[idx]
            amb = (key in domains[0]) if n > 1 else False   # the tuple itself is an outer-domain element: that reading wins
            if n == 1:
                ok_full.append(same(t[key[0]], want))
                if not isinstance(key[0], (tuple, list)) or key[0] in domains[0]:
                    pass
            elif not amb:
                ok_full.append(same(t[key], want))
            x = t
            for k in key:
                x = x[k]
            ok_nested.append(same(x, want))
        S.check('getitem:one-key-per-field-returns-the-cell-at-the-key-positions', S.And(ok_full))
        S.check('getitem:nested-single-field-indexing-returns-the-same-cell', S.And(ok_nested))
        # 2. dictionary protocol over the outermost domain
        S.check('keys/len/iter/items/values:outermost-domain-in-order', S.truth(
            list(t.keys()) == list(domains[0]) and len(t) == len(domains[0]) and list(iter(t)) == list(domains[0])
            and [k for k, _ in t.items()] == list(domains[0]) and len(list(t.values())) == len(domains[0])))
        # 3. an element of the outer domain always selects that element (sub-table / cell of that row)
        ok_outer = []
        for i, k in enumerate(domains[0]):
            sub = t[k]
            if n == 1:
                ok_outer.append(same(sub, leaf[i]))
            else:
                ok_outer.append(S.truth(tuple(sub.table_index.field_domains) == tuple(domaintuple(d) for d in domains[1:])))
                for idx in np.ndindex(*leaf.shape[1:]):
                    key = tuple(domains[f + 1][j] for f, j in enumerate(idx))
                    x = sub
                    for kk in key:
                        x = x[kk]
                    ok_outer.append(same(x, leaf[(i,) + idx]))
        S.check('getitem:an-outer-domain-element-always-selects-that-element', S.And(ok_outer))
        # 4. list of outer keys: sub-table restricted to those keys, in the given order
        ok_list = []
        d0 = list(domains[0])
        lists = [list(p) for r in range(1, min(3, len(d0)) + 1) for p in itertools.permutations(d0, r)]
        for ks in lists:
            sub = t[ks]
            ok_list.append(S.truth(list(sub.keys()) == ks and len(sub) == len(ks)))
            ok_list.append(S.truth(tuple(sub.table_index.field_domains[1:]) == tuple(domaintuple(d) for d in domains[1:])))
            for pos, k in enumerate(ks):
                i = d0.index(k)
                for idx in np.ndindex(*leaf.shape[1:]):
                    x = sub[k]
                    for f, j in enumerate(idx):
                        x = x[domains[f + 1][j]]
                    ok_list.append(same(x, leaf[(i,) + idx]))
                    ok_list.append(same(np.asarray(sub)[(pos,) + idx], leaf[(i,) + idx]))
        S.check('getitem:list-of-outer-keys-gives-the-sub-table-in-the-given-order', S.And(ok_list))
        # 4b. TUPLE selectors that carry a list of keys for an inner field (full-length permutations included), next to a key / a slice / a list for the outer one
        if n >= 2:
            ok_tl = []
            d1 = list(domains[1])
            inner_lists = [list(p) for r in sorted({1, len(d1)}) for p in itertools.permutations(d1, r)][:8]
            for ks in inner_lists:
                for i0, k0 in enumerate(d0):
                    sub = t[k0, ks]                      # outer key fixed, inner keys listed: labels and numbers must stay in step
                    ok_tl.append(S.truth(list(sub.keys()) == ks))
                    for pos, k1 in enumerate(ks):
                        j = d1.index(k1)
                        for idx in np.ndindex(*leaf.shape[2:]):
                            x = sub[k1]
                            for f, jj in enumerate(idx):
                                x = x[domains[f + 2][jj]]
                            ok_tl.append(same(x, leaf[(i0, j) + idx]))
                            ok_tl.append(same(np.asarray(sub)[(pos,) + idx], leaf[(i0, j) + idx]))
                sub2 = t[:, ks]                           # every outer key, inner keys listed
                ok_tl.append(S.truth(list(sub2.keys()) == d0))
                for i0, k0 in enumerate(d0):
                    row = sub2[k0]
                    ok_tl.append(S.truth(list(row.keys()) == ks))
                    for pos, k1 in enumerate(ks):
                        j = d1.index(k1)
                        for idx in np.ndindex(*leaf.shape[2:]):
                            ok_tl.append(same(np.asarray(sub2)[(i0, pos) + idx], leaf[(i0, j) + idx]))
                try:                                      # key lists on two fields at once are refused by design (the repository's MultipleIndexError)
                    t[list(reversed(d0)), ks]
                    ok_tl.append(S.false())
                except Exception as e_:
                    ok_tl.append(S.truth(type(e_).__name__ == 'MultipleIndexError'))
            S.check('getitem:tuple-selector-with-a-key-list-for-an-inner-field-keeps-labels-and-cells-in-step', S.And(ok_tl))
        # 5. full slices and ellipsis return the table itself
        forms = [slice(None), ..., (slice(None),), (...,)]
        S.check('getitem:full-slice-and-ellipsis-return-the-table', S.truth(all(t[f] is t for f in forms)))
        if n >= 2:
            ok_sl = []
            for j, k2 in enumerate(domains[1]):
                sub = t[:, k2] if not isinstance(k2, slice) else None
                ok_sl.append(S.truth(list(sub.keys()) == d0))
                for i, k1 in enumerate(d0):
                    for idx in np.ndindex(*leaf.shape[2:]):
                        x = sub[k1]
                        for f, jj in enumerate(idx):
                            x = x[domains[f + 2][jj]]
                        ok_sl.append(same(x, leaf[(i, j) + idx]))
            S.check('getitem:slice-in-first-field-fixes-the-second', S.And(ok_sl))
        # 6. foreign keys raise instead of returning a value; get() returns the default only for KeyError
        bad = []
        for fk in FOREIGN:
            if fk in domains[0]:
                continue
            if isinstance(fk, tuple) and len(fk) <= n and len(fk) > 0 and all(fk[i] in domains[i] or fk[i] == domains[i] for i in range(len(fk))):
                continue
            if isinstance(fk, tuple) and len(fk) == 0:
                continue
            try:
                r = t[fk]
                bad.append(('returned', repr(fk)))
            except (KeyError, IndexError, DomainError, TypeError, ValueError):
                pass
        S.check('getitem:foreign-key-raises', S.truth(not bad), detail=repr(bad))
        S.check('get:default-for-a-missing-outer-key', S.truth(t.get('zz', 'dflt') == 'dflt' if 'zz' not in domains[0] else True))
        # 7. probability rows are distributions over the row domain with the cells as probabilities
        if cls_name == 'ProbabilityTable' and n >= 2:
            ok_p = []
            for idx in np.ndindex(*leaf.shape[:-1]):
                row = t
                for f, i in enumerate(idx):
                    row = row[domains[f][i]]
                ok_p.append(S.truth(list(row.support) == list(domains[-1]) and [e for e, _ in row.items()] == list(domains[-1])))
                for j, e in enumerate(domains[-1]):
                    ok_p.append(same(row.prob(e), leaf[idx + (j,)]))
                    ok_p.append(same(row[e], leaf[idx + (j,)]))
                ok_p.append(S.eq(row.prob('zz') if 'zz' not in domains[-1] else 0, 0))
            S.check('ProbabilityTable:rows-are-distributions-over-the-row-domain-with-the-cells', S.And(ok_p))
        S.check('mustfail:first-cell-everywhere', S.And([same(t[domains[0][-1]] if n == 1 else t[domains[0][-1]][domains[1][-1]] if n == 2 else t[domains[0][-1]][domains[1][-1]][domains[2][-1]],
                                                               leaf[(0,) * n])]) if leaf.size > 1 else S.false())


def h_mdp_tables(case):
    """StateTable / StateActionTable / TabularPolicy: StateActionIndexError for foreign keys; from_dict layouts"""
    with facades():
        states, actions = {'sa': (['s0', ('s', 1), 0], ['a', 'b']), 'tuple-states': ([('a', 'b'), 'a'], ['b', 'c'])}[case]
        data, leaf = cells((states, actions))
        q = mt.StateActionTable.from_state_action_lists(states, actions, data)
        ok = []
        for i, s in enumerate(states):
            for j, a in enumerate(actions):
                ok.append(same(q[s][a], leaf[i, j]))
                ok.append(same(q[s, a], leaf[i, j]) if (s, a) not in states else S.true())
        S.check('StateActionTable:cells', S.And(ok))
        errs = []
        for fk in ['zz', ('zz', 'a'), (states[0], 'zz'), 99]:
            try:
                q[fk]
                errs.append(repr(fk))
            except mt.StateActionIndexError:
                pass
        S.check('StateActionTable:foreign-keys-raise-StateActionIndexError', S.truth(not errs), detail=repr(errs))
        v = mt.StateTable.from_dict({s: leaf[i, 0] for i, s in enumerate(states)})
        S.check('StateTable.from_dict:cells-and-order', S.And([same(v[s], leaf[i, 0]) for i, s in enumerate(states)] + [S.truth(list(v.keys()) == states)]))
        sa = mt.StateActionTable.from_dict({s: {a: leaf[i, j] for j, a in enumerate(actions) if (i + j) % 2 == 0 or j == 0} for i, s in enumerate(states)}, default_value=-7)
        okd = []
        for i, s in enumerate(states):
            for j, a in enumerate(actions):
                present = (i + j) % 2 == 0 or j == 0
                if a in sa.action_list:
                    okd.append(same(sa[s][a], leaf[i, j]) if present else S.eq(sa[s][a], -7))
        S.check('StateActionTable.from_dict:given-cells-else-default', S.And(okd))
        pdata, pleaf = cells((states, actions), tag='p')
        pol = tp.TabularPolicy.from_state_action_lists(states, actions, pdata)
        okp = []
        for i, s in enumerate(states):
            row = pol.action_dist(s)
            okp.append(S.truth(list(row.support) == actions))
            for j, a in enumerate(actions):
                okp.append(same(row.prob(a), pleaf[i, j]))
        S.check('TabularPolicy.action_dist:events-and-probabilities-are-the-row', S.And(okp))
        try:
            pol.action_dist('zz')
            e = False
        except mt.StateActionIndexError:
            e = True
        S.check('TabularPolicy.action_dist:foreign-state-raises-StateActionIndexError', S.truth(e))


def h_validate():
    bad = 0
    for doms, shape in (((('a', 'a'),), (2,)), ((('a', 'b'),), (3,)), ((('a', 'b'), ('x',)), (2, 2))):
        try:
            Table(data=np.zeros(shape), table_index=TableIndex(field_names=tuple('f%d' % i for i in range(len(doms))), field_domains=doms))
            bad += 1
        except ValueError:
            pass
    S.check('_validate_table:duplicate-or-mis-sized-domains-rejected', S.truth(bad == 0))
    a = TableIndex(field_names=('x', 'y'), field_domains=(('a', 'b'), (1, 2)))
    b = TableIndex(field_names=('x', 'y'), field_domains=(('a', 'b'), (1, 2)))
    c = TableIndex(field_names=('x', 'y'), field_domains=(('b', 'a'), (1, 2)))
    S.check('TableIndex.__eq__:same-fields-same-order', S.truth(a == b and not (a == c)))
    S.check('domaintuple.index:position-of-element', S.truth([domaintuple(POOL).index(e) for e in POOL] == list(range(len(POOL)))))
    S.check('_pad_out_ellipses', S.truth(a._pad_out_ellipses((..., 1)) == [slice(None), 1] and a._pad_out_ellipses(('a', ...)) == ['a', slice(None)]))


def tasks(tier, seed):
    T = []
    for di, doms in enumerate(domain_sets(tier)):
        for cls in ('Table', 'ProbabilityTable'):
            if cls == 'ProbabilityTable' and di % 2 and tier == 'quick':
                continue
            size = 1
            for d in doms:
                size *= len(d)
            T.append(Task('table/%s/%d:%s' % (cls, di, 'x'.join(str(len(d)) for d in doms)), h_table, (doms, cls), tier='B',
                          expect_fail=('mustfail:first-cell-everywhere',)))
    for case in ('sa', 'tuple-states'):
        T.append(Task('mdp-tables/%s' % case, h_mdp_tables, (case,), tier='B'))
    T.append(Task('validate', h_validate, (), tier='B'))
    return T


SENTINELS = [
    Sentinel('outer-key-list-order-ignored', 'msdm.core.table.tableindex',
             "domain=domaintuple([self.fields[0].domain[i] for i in array_index])", "domain=domaintuple([self.fields[0].domain[i] for i in sorted(array_index)])",
             ['table/Table/1:2', 'table/Table/2:3']),
]

MANIFEST_ENTRY = dict(
    category='other',
    text=('Contracts on Table/ProbabilityTable/TableIndex indexing, the MDP tables and TabularPolicy.action_dist: cells are distinct symbolic '
          'constants, so every lookup is proved to return exactly the cell at the key positions (term identity). Exhaustive over a bounded, '
          'collision-prone family of domains (tuples that are also elements, None, frozensets, floats), all full/nested keys, outer-key lists '
          'in every order, slices, ellipses and foreign keys.'),
    note='Exhaustive inside the stated bound (tier B): 1-3 fields, domain sizes 1-3 (quick) / 1-4 (thorough).',
)
END_MANIFEST_ENTRY = True
