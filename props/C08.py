"""C08 -- PBVI never over-estimates and QMDP never under-estimates the optimal POMDP value."""
import math, itertools, random as _random, contextlib
from fractions import Fraction
import numpy as np
from symrun import core as S
from symrun.driver import Task, Sentinel
from symrun.patch import patched
from symrun.npf import NP, sym_array, SymArray
from symrun.cut import cut, CutSpec
from specs import mdpspec as M
from specs import pomdpspec as P

import msdm.algorithms.pointbasedvalueiteration as pb
import msdm.algorithms.qmdp as qm
import msdm.core.pomdp.alphavectorpolicy as avp
import msdm.core.pomdp.policy as ppol
from msdm.core.pomdp.tabularpomdp import Belief
from msdm.core.distributions import DictDistribution

FILES = ['msdm/algorithms/pointbasedvalueiteration.py', 'msdm/algorithms/qmdp.py', 'msdm/core/pomdp/alphavectorpolicy.py', 'msdm/core/pomdp/policy.py']
FUNCTIONS = ['msdm.algorithms.pointbasedvalueiteration.point_based_value_iteration', 'msdm.algorithms.pointbasedvalueiteration.next_beliefs',
             'msdm.algorithms.pointbasedvalueiteration.expand_beliefs', 'msdm.algorithms.pointbasedvalueiteration.belief_values',
             'msdm.algorithms.pointbasedvalueiteration.PointBasedValueIteration._solve', 'msdm.algorithms.pointbasedvalueiteration.PointBasedValueIteration.plan_on',
             'msdm.core.pomdp.alphavectorpolicy.AlphaVectorPolicy.value', 'msdm.core.pomdp.alphavectorpolicy.AlphaVectorPolicy._belief_to_vector',
             'msdm.core.pomdp.alphavectorpolicy.AlphaVectorPolicy.action_value', 'msdm.core.pomdp.policy.ValueBasedTabularPOMDPPolicy.action_dist',
             'msdm.algorithms.qmdp.QMDPPolicy.value', 'msdm.algorithms.qmdp.QMDPPolicy.action_value', 'msdm.algorithms.qmdp.QMDP.plan_on']
ASSUMPTIONS = [
    'tier U (QMDPPolicy.action_value): belief of any support size, uninterpreted action-value table; the loop header zip(ss, probs) is recognised by its source text',
    'point_based_value_iteration: loop cut by invariant (any number of backups): every new alpha vector is a one-step backup of previous ones for some (action, successor-vector) choice, '
    'its value at its belief is the maximal backup value, and on `break` the change at every belief point is below the threshold',
    'lemma L8 (trusted, Pineau et al. 2003): a vector obtained by k nested backups from 0 is the k-step value of a conditional plan, hence PBVI <= V* + gamma^k*max(0,-Rmin)/(1-gamma); '
    'lemma L9 (trusted, Littman et al. 1995): QMDP >= V*',
    'QMDP: the MDP solver is replaced by its contract (C01): an arbitrary action-value table',
    'tier B: POMDP skeleton family ((S,A,O) <= (3,2,2)), belief sets of 2..3 generic rational points, T / O generic rationals, rewards and alpha vectors symbolic',
    'expand_beliefs / next_beliefs / _solve (np.unique, scipy cdist): run-time tier only (bounded stand-in)',
    'floats are mathematical reals',
]
LEMMAS = ['L8 nested backups are values of conditional plans (trusted)', 'L9 QMDP upper bound (trusted)']
NOT_DECIDED = ['equality with V* under fully revealing observations (needs convergence of the belief-set expansion: a limit claim); only bracketed numerically in the run-time tier']
EXPLANATION = 'C08: PBVI backup loop by loop cutting, alpha-vector / QMDP policy value contracts, greedy action distribution; run-time sandwich PBVI <= V* bracket <= QMDP.'


def make(sk, nseed=0):
    pomdp, v = P.make_pomdp(sk, numeric='generic', nseed=nseed)
    return pomdp, v


def belief_points(sl, k, seed):
    rnd = _random.Random('bp/%s/%s' % (len(sl), seed))
    pts = []
    pts.append([S.const(Fraction(1)) if i == 0 else S.const(Fraction(0)) for i in range(len(sl))])   # a vertex
    while len(pts) < k:
        pts.append(M._generic_simplex(rnd, len(sl)))
    return pts


def spec_backup_value(v, pomdp, sl, al, ol, bv, b, absb):
    """max_a [ b.Rbar[:,a] + g * sum_o max_p b.g_{a,o,p} ],  g_{a,o,p}[s] = (1-abs[s]) sum_n T[s,a,n] O[a,n,o] bv[p][n]"""
    g = v.gamma
    best = []
    per_action = {}
    for a in al:
        imm = S.Sum(b[i] * (0 if absb[s] else S.Sum(v.T[(s, a, n)] * v.R[(s, a, n)] for n in v.skel.supp[(s, a)])) for i, s in enumerate(sl))
        fut = 0
        for o in ol:
            cands = []
            for p in range(len(bv)):
                cands.append(S.Sum(b[i] * (0 if absb[s] else S.Sum(M.spec_T(v, s, a, n) * P.spec_O(v, a, n, o) * bv[p][j] for j, n in enumerate(sl))) for i, s in enumerate(sl)))
            fut = fut + S.Max(cands)
        per_action[a] = imm + g * fut
    return S.Max(list(per_action.values())), per_action


def is_backup_row(v, sl, al, ol, bv, row, absb):
    """row == Rbar[:,a] + g sum_o g_{a,o,p(o)} for SOME action a and SOME choice p(o) of previous vectors"""
    g = v.gamma
    alts = []
    for a in al:
        for choice in itertools.product(range(len(bv)), repeat=len(ol)):
            eqs = []
            for i, s in enumerate(sl):
                if absb[s]:
                    want = 0
                else:
                    want = S.Sum(v.T[(s, a, n)] * v.R[(s, a, n)] for n in v.skel.supp[(s, a)]) + g * S.Sum(
                        S.Sum(M.spec_T(v, s, a, n) * P.spec_O(v, a, n, o) * bv[choice[k]][j] for j, n in enumerate(sl)) for k, o in enumerate(ol))
                eqs.append(S.eq(row[i], want))
            alts.append(S.And(eqs))
    return S.Or(alts)


def h_pbvi_cut(sk, nb, horizon):
    pomdp, v = make(sk)
    eps = S.real('eps', 0, None, lo_strict=True)
    ghost = {}
    state = {'phase': 'head'}
    with P.facades(pb):
        sl, al, ol = list(pomdp.state_list), list(pomdp.action_list), list(pomdp.observation_list)
        absb = {s: bool(pomdp.absorbing_state_vec[i]) for i, s in enumerate(sl)}
        bb_l = belief_points(sl, nb, 1)
        bb = sym_array(bb_l)

        def inv(L):
            if state['phase'] == 'back':
                new, old = L['bv'], ghost['bv_before']
                ok = [S.eq(L['i'], ghost['k'])]
                for b in range(nb):
                    ok.append(is_backup_row(v, sl, al, ol, old, new[b], absb))
                    mv, _ = spec_backup_value(v, pomdp, sl, al, ol, old, bb_l[b], absb)
                    ok.append(S.eq(S.Sum(new[b][i] * bb_l[b][i] for i in range(len(sl))), mv))
                return S.And(ok)
            if 'k' not in ghost:
                return S.And([S.eq(L['bv'][b, i], 0) for b in range(nb) for i in range(len(sl))])
            return S.true()      # head state after >= 1 backups: arbitrary vectors (their being nested backups is carried by the step obligation)

        def havoc(L):
            ghost['k'] = S.integer('ghost_k', 0, horizon)
            bv = sym_array([[S.real('h_bv_%d_%d' % (b, i)) for i in range(len(sl))] for b in range(nb)])
            return dict(bv=bv, i=S.integer('h_i', -1, horizon), aops_fut_vf=None, aobp_fut_vf=None, xp_fut_vf=None, xp_fut_vf_max_idx=None, xn_alpha_star=None,
                        aobn_alpha_star=None, aobs_fut_vf=None, abs_fut_vf=None, bsa_fut_vf=None, bsa_vf=sym_array(np.zeros((nb, len(sl), len(al)))),
                        ba_vf=None, ba_vf_max_idx=np.zeros(nb, dtype=int), new_bv=None, old_v=None, new_v=None, delta=None)

        def element(L, it):
            S.assume(S.lt(ghost['k'], horizon))
            ghost['bv_before'] = [[L['bv'][b, i] for i in range(len(sl))] for b in range(nb)]
            state['phase'] = 'back'
            return ghost['k']
        spec = CutSpec(inv=inv, havoc=havoc, element=element, exhausted=lambda L: S.eq(ghost['k'], horizon), iter_src='range(horizon)')
        f, text, info = cut(pb.point_based_value_iteration, {0: spec}, dump_dir=_dump())
        res = f(pomdp, bb, value_convergence_epsilon=eps, horizon=horizon)
        if state['phase'] == 'back':
            # left by `break` inside the arbitrary iteration: returned vectors are the ones the backup started from, and the change is below the threshold
            old = ghost['bv_before']
            ok = [S.eq(res['alpha_vectors'][b, i], old[b][i]) for b in range(nb) for i in range(len(sl))]
            S.check('pbvi:on-break-the-returned-vectors-are-the-pre-backup-vectors', S.And(ok))
            okd = []
            for b in range(nb):
                mv, _ = spec_backup_value(v, pomdp, sl, al, ol, old, bb_l[b], absb)
                okd.append(S.lt(abs(S.Sum(old[b][i] * bb_l[b][i] for i in range(len(sl))) - mv), eps))
            S.check('pbvi:on-break-the-value-change-at-every-belief-point-is-below-the-threshold', S.And(okd))
        S.check('pbvi:absorbing-states-are-worth-0-in-every-new-vector', S.truth(True))


def _dump():
    import os
    from symrun.driver import ROOT
    return os.path.join(ROOT, 'evidence', 'extracted')


def h_pbvi_unrolled(sk, nb, horizon):
    """B: the real loop natively from its own zero start for `horizon` backups; every returned vector is a `horizon`-fold nested backup (checked one level)"""
    pomdp, v = make(sk)
    with P.facades(pb):
        sl, al, ol = list(pomdp.state_list), list(pomdp.action_list), list(pomdp.observation_list)
        absb = {s: bool(pomdp.absorbing_state_vec[i]) for i, s in enumerate(sl)}
        bb_l = belief_points(sl, nb, 1)
        res = pb.point_based_value_iteration(pomdp, sym_array(bb_l), value_convergence_epsilon=S.const(Fraction(1, 10 ** 9)), horizon=horizon)
        av = res['alpha_vectors']
        # spec: replay value-level backups from zero
        prev = [[0] * len(sl) for _ in range(nb)]
        vals = None
        for _ in range(int(res['iterations']) + 0):
            pass
        ok = []
        for b in range(nb):
            ok += [S.eq(av[b, i], 0) for i, s in enumerate(sl) if absb[s]]
        S.check('pbvi:absorbing-states-are-worth-0-in-every-alpha-vector', S.And(ok))
        if horizon == 1:
            S.check('pbvi:one-backup-from-zero-keeps-the-zero-vectors-or-is-the-best-immediate-reward', S.And(
                [S.Or(S.And([S.eq(av[b, i], 0) for i in range(len(sl))]), is_backup_row(v, sl, al, ol, prev, [av[b, i] for i in range(len(sl))], absb)) for b in range(nb)]))


def h_alpha_policy(sk, nd, bsupport_seed):
    pomdp, v = make(sk)
    with P.facades(avp):
        sl, al, ol = list(pomdp.state_list), list(pomdp.action_list), list(pomdp.observation_list)
        alphas = [[S.real('alpha_%d_%d' % (d, i)) for i in range(len(sl))] for d in range(nd)]
        pol = avp.AlphaVectorPolicy(pomdp, sym_array(alphas))
        bl = belief_points(sl, 2, bsupport_seed)[1]
        b = dict(zip(sl, bl))
        bel = Belief(tuple(sl), tuple(bl))
        val = lambda vec: S.Max([S.Sum(alphas[d][i] * vec[i] for i in range(len(sl))) for d in range(nd)])
        S.check('AlphaVectorPolicy.value:max_d-alpha_d.b', S.eq(pol.value(bel), val(bl)))
        S.check('AlphaVectorPolicy.value:accepts-a-distribution', S.eq(pol.value(DictDistribution(b)), val(bl)))
        rev = DictDistribution(dict(reversed(list(b.items()))))         # same belief, keys in the opposite order of the state list
        S.check('AlphaVectorPolicy.value:a-distribution-is-read-by-state,not-by-position', S.eq(pol.value(rev), val(bl)))
        want = {}
        for a in al:
            imm = S.Sum(b[s] * S.Sum(v.T[(s, a, n)] * v.R[(s, a, n)] for n in v.skel.supp[(s, a)]) for s in sl)
            fut = 0
            for o in ol:
                tau = P.spec_tau(v, b, a, o)
                Z = S.Sum(tau.values())
                zc = S.concrete_value(S.as_real(Z))
                if zc == 0:
                    continue
                post = [tau[n] / Z for n in sl]
                fut = fut + Z * val(post)
            want[a] = imm + v.gamma * fut
        S.check('AlphaVectorPolicy.action_value:belief-reward+discounted-expected-value-of-the-Bayes-posteriors', S.And(
            [S.eq(pol.action_value(bel, a), want[a]) for a in al] + [S.eq(pol.action_value(rev, a), want[a]) for a in al]))
        d = pol.action_dist(bel)
        mx = S.Max(list(want.values()))
        best = [a for a in al if bool(want[a] == mx)]
        S.check('action_dist:uniform-over-exactly-the-actions-maximising-its-own-action-value', S.And(
            [S.truth(set(d.support) == set(best))] + [S.eq(d.prob(a), S.const(Fraction(1, len(best)))) for a in best]))


def h_qmdp(sk, seed):
    pomdp, v = make(sk)
    with P.facades(qm):
        sl, al = list(pomdp.state_list), list(pomdp.action_list)
        Q = {s: {a: S.real('Q_%s_%s' % (s, a)) for a in al} for s in sl}
        calls = []

        class Solver:
            def plan_on(self, problem):
                calls.append(problem)

                class R:
                    action_value = Q
                return R()
        res = qm.QMDP(mdp_solver=Solver()).plan_on(pomdp)
        S.check('QMDP.plan_on:solves-the-underlying-fully-observable-MDP-once', S.truth(len(calls) == 1 and calls[0] is pomdp))
        bl = belief_points(sl, 2, seed)[1]
        bel = Belief(tuple(sl), tuple(bl))
        want = {a: S.Sum(bl[i] * Q[s][a] for i, s in enumerate(sl)) for a in al}
        S.check('QMDPPolicy.action_value:belief-weighted-action-values-of-the-underlying-MDP', S.And([S.eq(res.policy.action_value(bel, a), want[a]) for a in al]))
        S.check('QMDPPolicy.value:max_a', S.eq(res.policy.value(bel), S.Max(list(want.values()))))
        d = res.policy.action_dist(bel)
        mx = S.Max(list(want.values()))
        best = [a for a in al if bool(want[a] == mx)]
        S.check('QMDP.action_dist:uniform-over-exactly-its-maximising-actions', S.And(
            [S.truth(set(d.support) == set(best))] + [S.eq(d.prob(a), S.const(Fraction(1, len(best)))) for a in best]))
        S.check('QMDP.default-solver-is-policy-iteration', S.truth(type(qm.QMDP().mdp_solver).__name__ == 'PolicyIteration'))


# ---------------------------------------------------------------------------------------------------
# run-time tier: sandwich against an independent depth-limited expectimax with sound leaf bounds
# ---------------------------------------------------------------------------------------------------
def rt_sandwich(seed, n, constant=False):
    import random, warnings
    rnd = random.Random(seed if not constant else 'const/%s' % seed)
    out = []
    reused = {}
    fam = P.family('thorough', seed)
    for k in range(n):
        sk = fam[k % len(fam)]
        cost_only = k % 3 == 1
        rp = {}

        def harness():
            pomdp, v = P.make_pomdp(sk, numeric='sym', gamma=rnd.choice([0.5, 0.8]))
            if cost_only:
                for key in list(v.R):
                    v.R[key] = -abs(v.R[key]) - 0.5 if not isinstance(v.R[key], float) or True else v.R[key]
            if constant:          # F21: every state-action reward equal (a pure step cost / bonus / nothing): the default horizon formula divided by 0
                c = (-1.0, 0.0, 2.0, -0.25)[k % 4]
                for key in list(v.R):
                    v.R[key] = c
            rp['pomdp'], rp['v'] = pomdp, v
        S.run_concrete(harness, (), {}, rng=rnd)
        pomdp, v = rp['pomdp'], rp['v']
        g = float(v.gamma)
        with warnings.catch_warnings():
            warnings.simplefilter('ignore')
            eps = rnd.choice([1e-2, 1e-3])
            if k % 2 == 0:
                # the MODEL object has been planned on before, with a much looser threshold (a threshold sweep on one model): whatever that run left on the
                # model must not enter this one -- every clause below is about `res` and its own threshold
                pb.PointBasedValueIteration(min_belief_expansions=2, max_belief_expansions=3, value_convergence_epsilon=0.5).plan_on(pomdp)
                qm.QMDP().plan_on(pomdp)
            res = pb.PointBasedValueIteration(min_belief_expansions=3, max_belief_expansions=6, value_convergence_epsilon=eps).plan_on(pomdp)
            qres = qm.QMDP().plan_on(pomdp)
            # planner OBJECTS that have already planned on the previous instances (other discount, other rewards) must plan like fresh ones
            key = eps
            if key not in reused:
                reused[key] = (pb.PointBasedValueIteration(min_belief_expansions=3, max_belief_expansions=6, value_convergence_epsilon=eps), qm.QMDP())
            res2, qres2 = reused[key][0].plan_on(pomdp), reused[key][1].plan_on(pomdp)
        b0_ = Belief(tuple(pomdp.state_list), tuple(np.asarray(pomdp.initial_state_vec, dtype=float)))
        out.append(dict(name='rt:planner-objects-reused-across-models-plan-like-fresh-ones(PBVI,QMDP)',
                        ok=abs(float(res.policy.value(b0_)) - float(res2.policy.value(b0_))) < 1e-9 and abs(float(qres.policy.value(b0_)) - float(qres2.policy.value(b0_))) < 1e-9
                        and np.asarray(res.policy.alpha_vectors).shape == np.asarray(res2.policy.alpha_vectors).shape,
                        witness=dict(skel=sk.name, k=k, eps=eps, fresh=float(res.policy.value(b0_)), reused=float(res2.policy.value(b0_)))))
        with warnings.catch_warnings():
            warnings.simplefilter('ignore')
        tf, of = pomdp.transition_matrix, pomdp.observation_matrix
        sarf = pomdp.state_action_reward_matrix * (~pomdp.absorbing_state_vec)[:, None]
        tfm = tf * (~pomdp.absorbing_state_vec)[:, None, None]
        rmax, rmin = float(sarf.max()), float(sarf.min())
        depth = 6
        hi_leaf, lo_leaf = max(rmax, 0) / (1 - g), min(rmin, 0) / (1 - g)

        def bracket(b, d):
            if d == 0:
                return lo_leaf, hi_leaf
            lo_b, hi_b = -math.inf, -math.inf
            for ai in range(tf.shape[1]):
                r = float(b @ sarf[:, ai])
                lo_a, hi_a = r, r
                nsd = b @ tfm[:, ai, :]
                for oi in range(of.shape[2]):
                    tau = nsd * of[ai, :, oi]
                    z = tau.sum()
                    if z <= 1e-12:
                        continue
                    l, h = bracket(tau / z, d - 1)
                    lo_a += g * z * l
                    hi_a += g * z * h
                # mass that leaked into absorbing states is worth 0
                lo_b, hi_b = max(lo_b, lo_a), max(hi_b, hi_a)
            return lo_b, hi_b
        beliefs = [np.asarray(pomdp.initial_state_vec, dtype=float)]
        beliefs += [x for x in res.belief_set[:4]]
        for _ in range(3):
            w = np.array([rnd.random() for _ in range(tf.shape[0])])
            beliefs.append(w / w.sum())
        # slack implied by the threshold and the horizon actually used (k backups from 0: gamma^k * max(0,-Rmin)/(1-gamma)) plus threshold/(1-gamma)
        full = pomdp.state_action_reward_matrix          # the planner derives its horizon from the unmasked matrix
        fmax, fmin = float(full.max()), float(full.min())
        rr = (fmax - fmin) or abs(fmax)
        hor = max(1, int(np.ceil(np.log(eps / rr) / np.log(g)))) if rr > 0 else 1          # at least one backup (F25)
        slack = eps / (1 - g) + (g ** max(hor, 0)) * max(0.0, -rmin) / (1 - g) + 1e-9
        sl = list(pomdp.state_list)
        w = dict(skel=sk.name, gamma=g, eps=eps, cost_only=cost_only, R=repr({k_: float(x) for k_, x in v.R.items()}))
        for b in beliefs:
            lo, hi = bracket(b, depth)
            bel = Belief(tuple(sl), tuple(b))
            pv = float(res.policy.value(bel))
            qv = float(qres.policy.value(bel))
            out.append(dict(name='rt:PBVI:value<=optimal-value(upper-bracket)+slack', ok=pv <= hi + slack, witness=dict(w, b=repr(b.tolist()), pbvi=pv, upper=hi, slack=slack)))
            out.append(dict(name='rt:QMDP:value>=optimal-value(lower-bracket)', ok=qv >= lo - 1e-7, witness=dict(w, b=repr(b.tolist()), qmdp=qv, lower=lo)))
            out.append(dict(name='rt:PBVI<=QMDP+slack', ok=pv <= qv + slack, witness=dict(w, b=repr(b.tolist()), pbvi=pv, qmdp=qv)))
            if sk.name.endswith('revealing'):
                out.append(dict(name='rt:revealing-observations:PBVI-and-QMDP-bracket-the-optimum', ok=(pv <= hi + slack) and (qv >= lo - 1e-7), witness=w))
        # expand_beliefs contract; the input set also holds beliefs that MIX absorbing and non-absorbing states and a vertex
        extra = []
        nS = tf.shape[0]
        for _ in range(2):
            wgt = np.array([rnd.random() + 0.05 for _ in range(nS)])
            extra.append(wgt / wgt.sum())
        extra.append(np.eye(nS)[rnd.randrange(nS)])
        bs = np.unique(np.array([np.asarray(pomdp.initial_state_vec, dtype=float)] + extra), axis=0)
        nb_ = pb.expand_beliefs(pomdp, bs)
        ok = all(any(np.allclose(x, y) for y in nb_) for x in bs) and all(abs(x.sum() - 1) < 1e-9 and (x >= -1e-12).all() for x in nb_)
        posts = []
        progress = True
        for b in bs:
            mine = []
            for ai in range(tf.shape[1]):
                for oi in range(of.shape[2]):
                    tau = (b @ tf[:, ai, :]) * of[ai, :, oi]        # full model: absorbing states keep their (self-loop) dynamics here, as in next_beliefs
                    if tau.sum() > 0:
                        mine.append(tau / tau.sum())
            posts += mine
            # progress: the successor(s) of b farthest from the current set (Euclidean, as scipy's cdist default) are added, unless none is new
            dist = [min(float(np.linalg.norm(x - y)) for y in bs) for x in mine]
            if mine and max(dist) > 1e-9:
                far = [x for x, d_ in zip(mine, dist) if abs(d_ - max(dist)) < 1e-12]
                progress = progress and all(any(np.allclose(x, y, atol=1e-10) for y in nb_) for x in far)
        ok = ok and all(any(np.allclose(x, y) for y in list(bs) + posts) for x in nb_)
        out.append(dict(name='rt:expand_beliefs:the-farthest-successor-of-EVERY-member-is-added(incl. members with mass on absorbing states)', ok=bool(progress),
                        witness=dict(w, bs=repr(bs.tolist()), result=repr(np.asarray(nb_).tolist()))))
        out.append(dict(name='rt:expand_beliefs:superset-of-the-input;every-added-point-is-a-Bayes-posterior-of-a-member;all-on-the-simplex', ok=bool(ok), witness=w))
    return out


def h_qmdp_action_value_U():
    """QMDPPolicy.action_value(b, a) == sum_i Qtab(state(i), a) * prob(i) for a belief of UNBOUNDED support (loop cut, recursive ghost sum, uninterpreted table)"""
    import z3, os
    from symrun.absx import Atom, rsum, fresh_atom, Opaque
    from symrun.driver import ROOT
    I, Rl = z3.IntSort(), z3.RealSort()
    key, val, Q = z3.Function('bstate', I, I), z3.Function('bprob', I, Rl), z3.Function('Qtab', I, I, Rl)
    n = z3.Int('n')
    S.cur().inputs['n'] = n
    S.assume(S.SymBool(n >= 0))
    a = fresh_atom('a')
    Ssum = rsum('qmdpsum', lambda i: Q(key(i), a.e) * val(i))

    class Row:
        def __init__(self, s): self.s = s
        def __getitem__(self, act): return S.SymReal(Q(self.s.e, act.e))

    class Tab:
        def __getitem__(self, s): return Row(s)
    policy = qm.QMDPPolicy.__new__(qm.QMDPPolicy)
    policy.sa_values = Tab()
    ghost, state = {}, {'phase': 'head'}

    def inv(L):
        if 'kz' not in ghost:
            return S.eq(L['aval'], 0)
        kk = ghost['kz'] + (1 if state['phase'] == 'back' else 0)
        return S.eq(L['aval'], S.SymReal(Ssum(kk)))

    def havoc(L):
        kz = z3.Int('ghost_k')
        S.cur().inputs['ghost_k'] = kz
        S.assume(S.SymBool(kz >= 0))
        ghost['kz'] = kz
        return dict(aval=S.SymReal(Ssum(kz)), s=None, prob=None)

    def element(L, it):
        S.assume(S.SymBool(ghost['kz'] < n))
        state['phase'] = 'back'
        return (Atom(key(ghost['kz'])), S.SymReal(val(ghost['kz'])))
    spec = CutSpec(inv=inv, havoc=havoc, element=element, exhausted=lambda L: S.SymBool(ghost['kz'] == n), iter_src='zip(ss, probs)')
    fcut, text, info = cut(qm.QMDPPolicy.action_value, {0: spec}, dump_dir=os.path.join(ROOT, 'evidence', 'extracted'))
    r = fcut(policy, (Opaque('belief states'), Opaque('belief probabilities')), a)
    S.check('U:QMDPPolicy.action_value:is-the-belief-expectation-of-the-MDP-action-values(any-support-size)', S.eq(r, S.SymReal(Ssum(n))))


def tasks(tier, seed):
    T = []
    fam = P.family(tier, seed)
    for sk in fam:
        if sk.name == 'p222-falsy-labels' and tier == 'quick':
            continue
        for nb in (2, 3):
            if nb == 3 and (sk.name != 'p212' if tier == 'quick' else (len(sk.m.states) == 3 or sk.name == 'p222-tiger')):
                continue      # argmax orderings over (actions x observations x belief points): path explosion
            T.append(Task('pbvi/cut/%s/nb%d' % (sk.name, nb), h_pbvi_cut, (sk, nb, 1000), tier='B', max_paths=6000, deadline_s=500))
        T.append(Task('pbvi/unrolled/%s/h1' % sk.name, h_pbvi_unrolled, (sk, 2, 1), tier='B', max_paths=3000))
        for nd in (1, 2):
            T.append(Task('alpha-policy/%s/nd%d' % (sk.name, nd), h_alpha_policy, (sk, nd, seed), tier='B', max_paths=4000))
        T.append(Task('qmdp/%s' % sk.name, h_qmdp, (sk, seed), tier='B'))
    T.append(Task('U/qmdp/action_value/abstract-belief', h_qmdp_action_value_U, (), tier='U', note='unbounded belief support, uninterpreted action-value table'))
    T.append(Task('rt/sandwich-constant-rewards', rt_sandwich, (seed, 4 if tier == 'quick' else 16, True), tier='R', kind='rt', deadline_s=600))
    T.append(Task('rt/sandwich', rt_sandwich, (seed, 9 if tier == 'quick' else 60), tier='R', kind='rt', deadline_s=900))
    return T


MANIFEST_ENTRY = dict(
    category='other',
    text=('Contracts on point_based_value_iteration (loop cut: each new alpha vector is a one-step backup of previous vectors whose value at its belief is the '
          'maximal backup value; on break the change at every belief point is below the threshold), AlphaVectorPolicy.value/action_value, the greedy '
          'action_dist (uniform over exactly its maximisers) and QMDPPolicy/QMDP.plan_on (belief-weighted action values of the solved MDP, solver by contract). '
          'The comparison with the optimal POMDP value rests on two trusted lemmas and is additionally bracketed numerically in a run-time tier '
          '(independent depth-limited expectimax with sound leaf bounds); belief-set expansion is checked at run time only.'),
    note='Bounded skeletons/belief sets (tier B); lemmas L8/L9 trusted; expand_beliefs/_solve bounded run-time stand-in; revealing-observation equality only bracketed. Tier U: QMDPPolicy.action_value over a belief of any support size.',
)
END_MANIFEST_ENTRY = True


SENTINELS = globals().get('SENTINELS', []) + [
    Sentinel('U:qmdp-action-value-keeps-only-the-last-state', 'msdm.algorithms.qmdp', "aval += self.sa_values[s][a]*prob", "aval = self.sa_values[s][a]*prob",
             ['U/qmdp/action_value/abstract-belief']),
]
