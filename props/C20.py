"""C20 -- built-in domains define well-formed models for every layout and parameter."""
import math, itertools, random as _random, contextlib, inspect
from fractions import Fraction
import numpy as np
from symrun import core as S
from symrun.driver import Task, Sentinel
from specs import mdpspec as M
from specs import pomdpspec as P

from frozendict import frozendict
import msdm.domains.gridworld.mdp as gwm
import msdm.domains.gridmdp.gridmdp as gmdp
import msdm.domains.gridmdp.windygridworld as wgw
import msdm.domains.cliffwalking as cw
import msdm.domains.tiger as tg
import msdm.domains.loadunload as lu
import msdm.domains.heavenorhell as hh
import msdm.core.utils.gridstringutils as gsu
import msdm.core.distributions.distributions as dd

FILES = ['msdm/domains/gridworld/mdp.py', 'msdm/domains/gridmdp/gridmdp.py', 'msdm/domains/gridmdp/windygridworld.py', 'msdm/domains/cliffwalking.py',
         'msdm/domains/tiger.py', 'msdm/domains/loadunload.py', 'msdm/domains/heavenorhell.py', 'msdm/core/utils/gridstringutils.py']
FUNCTIONS = ['msdm.domains.gridworld.mdp.GridWorld.' + f for f in ('__init__', 'next_state_dist', 'reward', 'actions', 'is_absorbing', 'initial_state_dist', 'state_list', 'feature_locations')] + \
    ['msdm.core.utils.gridstringutils.string_to_element_array'] + \
    ['msdm.domains.gridmdp.gridmdp.GridMDP.' + f for f in ('grid', 'location_feature_dict', 'feature_locations_dict', 'actions', 'feature_at', 'locations_with')] + \
    ['msdm.domains.gridmdp.windygridworld.WindyGridWorld.' + f for f in ('__init__', 'next_state_reward_dist', '_effect_of_wind', '_effect_of_action', '_effect_of_walls',
                                                                         '_effect_of_features', 'next_state_dist', 'reward', 'is_absorbing', 'initial_state_dist')] + \
    ['msdm.domains.cliffwalking.CliffWalking.' + f for f in ('next_state_dist', 'reward', 'is_absorbing', 'initial_state_dist', '_apply_action')] + \
    ['msdm.domains.tiger.Tiger.' + f for f in ('next_state_dist', 'reward', 'actions', 'initial_state_dist', 'observation_dist')] + \
    ['msdm.domains.loadunload.LoadUnload.' + f for f in ('next_state_dist', 'reward', 'observation_dist', 'initial_state_dist')] + \
    ['msdm.domains.heavenorhell.HeavenOrHell.' + f for f in ('__init__', 'next_state_dist', 'reward', 'observation_dist', 'is_absorbing', 'initial_state_dist', 'actions')]
ASSUMPTIONS = [
    'layouts: exhaustive enumeration of all rectangular layouts up to the stated size over each domain alphabet that contain a start cell (quick: grid world <=1x3 and 2x2, '
    'windy <=1x3 and 2x2; thorough adds 2x3 / 3x2 samples drawn from VERIF_SEED); one-row / one-column and goal-cut layouts included',
    'parameters: success / wind probability, step cost, bump cost, feature rewards, coherence are symbolic on (0,1) resp. all reals, with the end points 0 and 1 as separate concrete variants',
    'floats are mathematical reals',
]
LEMMAS = []
NOT_DECIDED = ['layouts beyond the enumerated sizes']
EXPLANATION = 'C20: per-call well-formedness clauses of every built-in domain for symbolic parameters over exhaustively enumerated small layouts; arrays build and plan (C06/C01 contracts).'


def prob_param(name, mode):
    if mode == 'open':
        return S.real(name, 0, 1, lo_strict=True, hi_strict=True)
    return {'zero': 0.0, 'one': 1.0, 'one-int': 1, 'half': 0.5}[mode]


def layouts(alphabet, shapes, need):
    for (h, w) in shapes:
        for cells in itertools.product(alphabet, repeat=h * w):
            if not all(any(c == n for c in cells) for n in need):
                continue
            yield tuple(''.join(cells[r * w:(r + 1) * w]) for r in range(h))


def norm_clauses(d, allowed=None, inside=None):
    items = list(d.items())
    ok = [S.eq(S.Sum(p for _, p in items), 1)] + [S.le(0, p) for _, p in items]
    if inside is not None:
        for e, p in items:
            ok.append(S.Or(S.truth(e in inside), S.eq(p, 0)))
    if allowed is not None:
        ok.append(S.truth(all(e in allowed for e, _ in items)))
    return ok


def h_gridworld(batch, pmode, groups=None):
    """groups = (absorbing_features, wall_features) as handed to the constructor; None = the usual ('g',), ('#',).  An EMPTY group is legal and means
    "no such cells": a 'g' / '#' in the layout is then an ordinary (rewarded / enterable) cell."""
    A_given, W_given = groups if groups is not None else (('g',), ('#',))
    A_, W_ = tuple(A_given), tuple(W_given)
    p = prob_param('success_prob', pmode)
    step = S.real('step_cost')
    fr = {'g': S.real('reward_g'), 'x': S.real('reward_x')}
    with M.facades(gwm):
        for lay in batch:
            gw = gwm.GridWorld(list(lay), feature_rewards=dict(fr), absorbing_features=A_given, wall_features=W_given, initial_features=('s',),
                               step_cost=step, success_prob=p, discount_rate=0.9)
            H, W = len(lay), len(lay[0])
            cell = lambda x, y: lay[H - 1 - y][x]
            sl = list(gw.state_list)
            # parser: every cell exactly one state with the listed feature; marked sets
            okp = [S.truth(len(sl) == H * W + 1 and len(set(sl)) == len(sl) and gwm.TERMINALSTATE in sl)]
            for y in range(H):
                for x in range(W):
                    s = frozendict({'x': x, 'y': y})
                    okp.append(S.truth(s in sl and gw.location_features.get(s) == (cell(x, y) if cell(x, y) != '.' else None)))   # '.' is the empty (default) cell
                    okp.append(S.truth((s in gw.walls) == (cell(x, y) in W_) and (s in gw.initial_states) == (cell(x, y) == 's') and (s in gw.absorbing_states) == (cell(x, y) in A_)))
            okp.append(S.truth(gw.width == W and gw.height == H))
            S.check('GridWorld:parser-one-state-per-cell-with-its-feature;walls/initial/absorbing-as-marked', S.And(okp), detail=repr(lay))
            okn, okm, okr, oka = [], [], [], []
            for s in sl:
                acts = list(gw.actions(s))
                oka.append(S.truth(len(acts) == 5))
                for a in acts:
                    d = gw.next_state_dist(s, a)
                    okn += norm_clauses(d, inside=set(sl))
                    if s == gwm.TERMINALSTATE:
                        okm.append(S.And(S.eq(d.prob(gwm.TERMINALSTATE), 1), S.truth(gw.is_absorbing(s))))
                        okr.append(S.eq(gw.reward(s, a, gwm.TERMINALSTATE), 0))
                        continue
                    x, y = s['x'], s['y']
                    if cell(x, y) in A_:
                        okm.append(S.eq(d.prob(gwm.TERMINALSTATE), 1))
                        okr.append(S.eq(gw.reward(s, a, gwm.TERMINALSTATE), 0))
                        continue
                    nx, ny = x + a['dx'], y + a['dy']
                    ns = frozendict({'x': nx, 'y': ny})
                    can = (0 <= nx < W and 0 <= ny < H) and cell(nx, ny) not in W_ and ns != s
                    okm.append(S.truth(all((abs(e['x'] - x) + abs(e['y'] - y) <= 1) and e in (s, ns) for e in d.support if not _zero(d.prob(e)))))
                    if can:
                        okm.append(S.eq(d.prob(ns), p))
                        okm.append(S.eq(d.prob(s), 1 - p))
                        okr.append(S.eq(gw.reward(s, a, ns), step + fr.get(cell(nx, ny), 0)))
                    else:
                        okm.append(S.eq(d.prob(s), 1))
                    okr.append(S.eq(gw.reward(s, a, s), step + fr.get(cell(x, y), 0)))
            S.check('GridWorld:transitions-normalised-with-successors-inside-the-state-list', S.And(okn), detail=repr(lay))
            S.check('GridWorld:moves<=1-cell-as-commanded,never-into-walls/off-grid,succeeds-with-success_prob;absorbing-feature->terminal', S.And(okm), detail=repr(lay))
            S.check('GridWorld:reward=step-cost+feature-reward-of-the-entered-cell;0-into/inside-the-terminal-state', S.And(okr), detail=repr(lay))
            S.check('GridWorld:every-state-offers-actions', S.And(oka))
            d0 = gw.initial_state_dist()
            S.check('GridWorld:initial-distribution-normalised-over-the-start-cells', S.And(norm_clauses(d0, inside=set(sl)) + [S.truth(set(d0.support) == set(gw.initial_states))]))


def _zero(x):
    if isinstance(x, S.SymReal):
        c = S.concrete_value(x)
        return c is not None and c == 0
    return float(x) == 0.0


def h_gridworld_defaults():
    """every parameter the signature defaults is accepted"""
    gw = gwm.GridWorld(['s.g'])
    ok = []
    for s in gw.state_list:
        for a in gw.actions(s):
            d = gw.next_state_dist(s, a)
            ok += norm_clauses(d, inside=set(gw.state_list))
            for ns in d.support:
                ok.append(S.truth(math.isfinite(gw.reward(s, a, ns))))
    S.check('GridWorld:defaults-accepted', S.And(ok))
    gw2 = gwm.GridWorld('s.\n.g', feature_rewards=(('g', 5),))
    S.check('GridWorld:string-layout-and-pair-list-rewards-accepted', S.truth(gw2.reward(frozendict(x=0, y=0), frozendict(dx=1, dy=0), frozendict(x=1, y=0)) == 4))
    arr = gsu.string_to_element_array('ab\ncd', colsep='', rowsep='\n', elementsep='.')
    S.check('string_to_element_array:rows-and-cells', S.truth(arr == [[['a'], ['b']], [['c'], ['d']]] and gsu.string_to_element_array('a.b c', colsep=' ') == [[['a', 'b'], ['c']]]))


def h_windy(batch, wmode, default_rewards):
    w = prob_param('wind_probability', wmode)
    step, bump = S.real('step_cost'), S.real('wall_bump_cost')
    fr = None if default_rewards else {'x': S.real('reward_x'), '$': S.real('reward_goal')}
    with M.facades(wgw, gmdp):
        for lay in batch:
            g = wgw.WindyGridWorld('\n'.join(lay), feature_rewards=fr, step_cost=step, wall_bump_cost=bump, wind_probability=w, discount_rate=0.9)
            H, W = len(lay), len(lay[0])
            cell = lambda x, y: lay[H - 1 - y][x]
            locs = set(g.location_list)
            okp = [S.truth(len(locs) == H * W and g.width == W and g.height == H)]
            for y in range(H):
                for x in range(W):
                    okp.append(S.truth(g.feature_at(gmdp.Location(x, y)) == cell(x, y) and gmdp.Location(x, y) in g.locations_with(cell(x, y))))
            S.check('WindyGridWorld:parser-one-location-per-cell-with-its-feature', S.And(okp), detail=repr(lay))
            okn, okr = [], []
            for s in sorted(locs):
                acts = g.actions(s)
                okn.append(S.truth(len(acts) == 4))
                for a in acts:
                    d = g.next_state_dist(s, a)
                    okn += norm_clauses(d, inside=locs)
                    for ns in d.support:
                        if _zero(d.prob(ns)):
                            continue
                        r = g.reward(s, a, ns)
                        okr.append(S.truth(isinstance(r, (int, float, S.SymReal)) and (not isinstance(r, S.SymReal) or r.is_finite())))
                okn.append(S.truth(g.is_absorbing(s) == (cell(s.x, s.y) == '$')))
            S.check('WindyGridWorld:transitions-normalised,successors-in-grid', S.And(okn), detail=repr(lay))
            S.check('WindyGridWorld:rewards-finite', S.And(okr), detail=repr(lay))
            d0 = g.initial_state_dist()
            S.check('WindyGridWorld:initial-distribution-normalised-over-start-cells', S.And(norm_clauses(d0, inside=locs)))


def h_tiger(cmode):
    c = prob_param('coherence', cmode)
    t = tg.Tiger(coherence=c, discount_rate=0.9)
    states = ['left', 'right']
    ok = []
    for s in states:
        ok.append(S.truth(len(t.actions(s)) == 3))
        for a in t.actions(s):
            ok += norm_clauses(t.next_state_dist(s, a), inside=set(states))
            for ns in states:
                ok += norm_clauses(t.observation_dist(a, ns), inside={'left', 'right'})
                ok.append(S.truth(math.isfinite(t.reward(s, a, ns))))
    ok += norm_clauses(t.initial_state_dist(), inside=set(states))
    S.check('Tiger:transition/observation/initial-distributions-normalised;rewards-finite', S.And(ok))
    ok2 = [S.eq(t.observation_dist('listen', 'left').prob('left'), c), S.eq(t.observation_dist('listen', 'right').prob('right'), c),
           S.eq(t.observation_dist('left', 'left').prob('left'), S.const(Fraction(1, 2)))]
    S.check('Tiger:listening-reveals-the-tiger-with-the-coherence-probability', S.And(ok2))


def h_loadunload(n):
    m = lu.LoadUnload(nstates=n, discount_rate=0.9)
    states = [lu.State(l, b) for l in range(n) for b in (False, True)]
    ok = []
    for s in states:
        for a in m.actions(s):
            d = m.next_state_dist(s, a)
            ok += norm_clauses(d, inside=set(states))
            for ns in d.support:
                ok.append(S.truth(m.reward(s, a, ns) in (0, 1)))
                ok += norm_clauses(m.observation_dist(a, ns), inside={'load', 'unload', 'other'})
        ok.append(S.truth(len(m.actions(s)) == 2))
    ok += norm_clauses(m.initial_state_dist(), inside=set(states))
    S.check('LoadUnload:well-formed-for-every-size', S.And(ok))


def h_heavenorhell(cmode, grid):
    c = prob_param('coherence', cmode)
    step, hr, lr_ = S.real('step_cost'), S.real('heaven_reward'), S.real('hell_reward')
    m = hh.HeavenOrHell(coherence=c, discount_rate=0.9, step_cost=step, heaven_reward=hr, hell_reward=lr_, grid=grid)
    locs = [xy for xy, f in m.loc_features.items() if f != '#']
    states = [hh.State(x, y, a_, b_) for (x, y) in locs for (a_, b_) in (('g', 'h'), ('h', 'g'))]
    ok = []
    for s in states:
        ok.append(S.truth(len(m.actions(s)) == 5))
        for a in m.actions(s):
            d = m.next_state_dist(s, a)
            ok += norm_clauses(d, inside=set(states))
            for ns in d.support:
                r = m.reward(s, a, ns)
                f = m.loc_features[(ns.x, ns.y)]
                ok.append(S.eq(r, step + (hr if f == ns.heaven else lr_ if f == ns.hell else 0)))
                od = m.observation_dist(a, ns)
                ok += norm_clauses(od)
                if a.read and f == 'c':
                    ok.append(S.eq(od.prob(hh.Observation(ns.x, ns.y, ns.heaven)), c))
    ok += norm_clauses(m.initial_state_dist(), inside=set(states))
    S.check('HeavenOrHell:well-formed;reading-in-church-reveals-heaven-with-the-coherence-probability', S.And(ok))


def _cliff_clauses(m):
    locs = set(m.location_list)
    starts = set(m.locations_with('s'))
    ok = []
    for s in sorted(locs):
        for a in m.actions(s):
            d = m.next_state_dist(s, a)
            ok += norm_clauses(d, inside=locs)
            tgt = gmdp.Location(max(min(s.x + a.dx, m.width - 1), 0), max(min(s.y + a.dy, m.height - 1), 0))      # the commanded cell, clipped to THIS model's grid
            if m.feature_at(tgt) == 'x':
                ok.append(S.truth(set(d.support) == starts))                                                   # falling resets onto THIS model's start cells
            else:
                ok.append(S.truth(list(d.support) == [tgt]))
            for ns in d.support:
                ok.append(S.truth(m.reward(s, a, ns) == (-100 if m.feature_at(tgt) == 'x' else -1)))
                ok.append(S.truth(m.feature_at(ns) != 'x'))
    ok += norm_clauses(m.initial_state_dist(), inside=locs)
    return ok


def h_cliff():
    S.check('CliffWalking:well-formed;never-rests-on-the-cliff', S.And(_cliff_clauses(cw.CliffWalking())))


def h_cliff_layouts(order):
    """several cliff-walking models with DIFFERENT layouts alive in one process (sub-classes that hand their own grid to GridMDP.__init__), built and
    queried in the given order, the stock one among them: each must be well-formed on ITS OWN layout whatever was built or asked before"""
    from msdm.domains.gridmdp import GridMDP
    grids = {'stock': None, 'small': 's.\nxg', 'two-starts': 's..\ns.x\nxxg', 'row': 'sxxg', 'tall': '..\n..\n..\nsg'}

    def make(name):
        if grids[name] is None:
            return cw.CliffWalking()

        class Custom(cw.CliffWalking):
            def __init__(self):
                GridMDP.__init__(self, grids[name])
                self.discount_rate = 1.0
        return Custom()
    models = [(nm, make(nm)) for nm in order]
    for rounds in range(2):                     # ask every model, then every model again (answers must not depend on what other models were asked)
        for nm, m in models:
            S.check('CliffWalking[%s]:well-formed-on-its-own-layout-with-other-layouts-alive' % nm, S.And(_cliff_clauses(m)))


def rt_arrays_and_planning(seed, n):
    """R: the tabular arrays can be built and planned on (concrete parameters incl. the end points 0 and 1)"""
    import random, warnings
    from msdm.algorithms import ValueIteration
    rnd = random.Random(seed)
    out = []

    def build_and_plan(name, mk, w):
        try:
            with warnings.catch_warnings():
                warnings.simplefilter('ignore')
                m = mk()
                tf = m.transition_matrix
                live = m.action_matrix.astype(bool) & ~np.asarray(m.absorbing_state_vec, dtype=bool)[:, None]   # rows of absorbing states are never followed (and may lack successors outside the state list)
                ok = bool(np.isclose(tf.sum(-1)[live], 1).all()) and np.isfinite(m.reward_matrix).all()
                res = ValueIteration(max_iterations=2000).plan_on(m)
                ok = ok and all(math.isfinite(x) or x == -math.inf for x in res.state_value.values())
                if hasattr(m, 'observation_matrix'):
                    ok = ok and bool(np.isclose(m.observation_matrix.sum(-1), 1).all())
            out.append(dict(name='rt:%s:arrays-build-rows-normalised-and-value-iteration-runs' % name, ok=ok, witness=w))
        except Exception as e:
            out.append(dict(name='rt:%s:arrays-build-rows-normalised-and-value-iteration-runs' % name, ok=False, detail='%s: %s' % (type(e).__name__, e), witness=w))
    gl = list(layouts('.#gsx', [(1, 3), (2, 2), (3, 1)], need='sg'))
    wl = list(layouts('.#$@x^v<>', [(1, 3), (2, 2)], need='@$'))
    for k in range(n):
        lay = rnd.choice(gl)
        p = rnd.choice([0, 0.3, 1, 1.0])
        build_and_plan('GridWorld', lambda: gwm.GridWorld(list(lay), success_prob=p, discount_rate=rnd.choice([0.9, 1.0]), step_cost=-1), dict(layout=lay, success_prob=p))
        lay2 = rnd.choice(wl)
        wp = rnd.choice([0, 0.5, 1])
        build_and_plan('WindyGridWorld', lambda: wgw.WindyGridWorld('\n'.join(lay2), wind_probability=wp, discount_rate=0.9), dict(layout=lay2, wind_probability=wp))
    build_and_plan('WindyGridWorld(defaults)', lambda: wgw.WindyGridWorld('@..\n.>$'), dict())
    build_and_plan('CliffWalking', lambda: cw.CliffWalking(), dict())
    for c in (0, 0.5, 0.85, 1):
        build_and_plan('Tiger', lambda: tg.Tiger(coherence=c, discount_rate=0.9), dict(coherence=c))
        build_and_plan('HeavenOrHell', lambda: hh.HeavenOrHell(coherence=c), dict(coherence=c))
    for ns in (2, 3, 8):
        build_and_plan('LoadUnload', lambda: lu.LoadUnload(nstates=ns), dict(nstates=ns))
    # several models of one domain alive in ONE process, with different parameters over the same cells: the full per-call contract of each (the bounded
    # tasks give every parameter setting its own process)
    some = [lay for i, lay in enumerate(gl) if i % 7 == 0][:12]
    for pm in ('one', 'half', 'open', 'zero', 'half', 'one-int', 'open', 'one'):
        rp = S.run_concrete(h_gridworld, (some, pm), {}, rng=rnd)
        for c in rp['checks']:
            out.append(dict(name='rt:several-models-in-one-process:' + c['name'], ok=c['status'] == 'proved', detail=str(c.get('detail'))[:600],
                            witness=dict(success_prob_mode=pm, inputs=rp.get('inputs'))))
    somew = [lay for i, lay in enumerate(wl) if i % 11 == 0][:8]
    for pm in ('one', 'half', 'open', 'zero', 'half'):
        rp = S.run_concrete(h_windy, (somew, pm, False), {}, rng=rnd)
        for c in rp['checks']:
            out.append(dict(name='rt:several-models-in-one-process:' + c['name'], ok=c['status'] == 'proved', detail=str(c.get('detail'))[:600],
                            witness=dict(wind_probability_mode=pm, inputs=rp.get('inputs'))))
    return out


def chunks(xs, k):
    xs = list(xs)
    return [xs[i:i + k] for i in range(0, len(xs), k)]


def tasks(tier, seed):
    T = []
    gshapes = [(1, 1), (1, 2), (2, 1), (1, 3), (3, 1), (2, 2)]
    gl = list(layouts('.#gsx', gshapes, need='s'))
    if tier == 'thorough':
        rnd = _random.Random(seed)
        big = list(layouts('.#gs', [(2, 3), (3, 2)], need='s'))
        gl += rnd.sample(big, 300)
    for pm in ('open', 'zero', 'one', 'one-int'):
        for bi, b in enumerate(chunks(gl, 40)):
            T.append(Task('gridworld/%s/batch%d' % (pm, bi), h_gridworld, (b, pm), tier='B', deadline_s=400))
    T.append(Task('gridworld/defaults', h_gridworld_defaults, (), tier='B'))
    # explicitly EMPTY (and string-valued) feature groups on layouts that do contain the default symbols
    gl = [('s#g', '.x.'), ('sg', '#.'), ('s.g',)]
    for gi, grp in enumerate([((), ('#',)), (('g',), ()), ((), ()), ('', '#'), ('g', ''), (('g', 'x'), ('#',)), ([], ['#'])]):
        T.append(Task('gridworld/feature-groups/%d' % gi, h_gridworld, (gl, 'open', grp), tier='B', deadline_s=400, note='absorbing=%r walls=%r' % grp))
    wl = list(layouts('.#$@x^v<>', [(1, 1), (1, 2), (2, 1), (1, 3)], need='@')) + (list(layouts('.#$@^<', [(2, 2)], need='@')))
    if tier == 'thorough':
        rnd = _random.Random(seed + 1)
        wl += rnd.sample(list(layouts('.#$@v>', [(2, 3)], need='@')), 200)
    for wm in ('open', 'zero', 'one'):
        for bi, b in enumerate(chunks(wl, 25)):
            T.append(Task('windy/%s/batch%d' % (wm, bi), h_windy, (b, wm, bi % 2 == 0), tier='B', deadline_s=400))
    for cm in ('open', 'zero', 'one', 'half'):
        T.append(Task('tiger/%s' % cm, h_tiger, (cm,), tier='B'))
        T.append(Task('heavenorhell/%s/default-grid' % cm, h_heavenorhell, (cm, None), tier='B'))
        T.append(Task('heavenorhell/%s/corridor' % cm, h_heavenorhell, (cm, 'hcsg'), tier='B'))
    for n in (1, 2, 3, 8):
        T.append(Task('loadunload/n%d' % n, h_loadunload, (n,), tier='B'))
    T.append(Task('cliffwalking', h_cliff, (), tier='B'))
    for order in (('stock', 'small', 'two-starts'), ('small', 'stock', 'row', 'tall'), ('two-starts', 'tall', 'small')):
        T.append(Task('cliffwalking/layouts/' + '+'.join(order), h_cliff_layouts, (order,), tier='B', note='several layouts alive in one process'))
    T.append(Task('rt/arrays-and-planning', rt_arrays_and_planning, (seed, 25 if tier == 'quick' else 200), tier='R', kind='rt'))
    return T


MANIFEST_ENTRY = dict(
    category='other',
    text=('Per-call contracts of every built-in domain (grid world, windy grid world, cliff walking, tiger, load-unload, heaven-or-hell): normalised '
          'distributions with successors inside the state list, finite rewards, non-empty action sets, parser clauses; for the plain grid world the '
          'full movement/reward/terminal specification. Parameters (success/wind probability, costs, rewards, coherence) are symbolic, so each layout is '
          'proved for ALL parameter values (end points as separate variants); layouts are enumerated exhaustively up to a stated size. Run-time tier: '
          'arrays build and value iteration runs.'),
    note='Bounded layout sizes (tier B); "arrays can be built and planned on" is run-time evidence plus the C06/C01 contracts.',
)
END_MANIFEST_ENTRY = True


SENTINELS = globals().get('SENTINELS', []) + [
    Sentinel('gridworld-slip-mass-swapped', 'msdm.domains.gridworld.mdp', '                s: 1 - self.success_prob,\n                ns: self.success_prob\n',
             '                s: self.success_prob,\n                ns: 1 - self.success_prob\n', ['re:^gridworld/.*/batch0']),
    Sentinel('tiger-coherence-swapped', 'msdm.domains.tiger', '            pleft = self.coherence\n',
             '            pleft = 1 - self.coherence\n', ['re:^tiger/']),
]
