"""C14 -- policy roll-outs are valid trajectories and Monte-Carlo evaluation averages them."""
import math, itertools, random as _random, contextlib
from fractions import Fraction
import numpy as np
from symrun import core as S
from symrun.driver import Task, Sentinel
from symrun.patch import patched
from symrun.rngf import DemonicRng, Tripwire
from symrun.npf import sym_array
from specs import mdpspec as M
from specs import pomdpspec as P

import msdm.core.mdp.policy as pol
import msdm.core.pomdp.policy as ppol
import msdm.core.distributions.distributions as dd
import msdm.core.distributions.dictdistribution as dct
from msdm.core.distributions import DictDistribution
from msdm.core.pomdp.tabularpomdp import Belief

FILES = ['msdm/core/mdp/policy.py', 'msdm/core/pomdp/policy.py']
FUNCTIONS = ['msdm.core.mdp.policy.Policy.run_on', 'msdm.core.mdp.policy.Policy.evaluate_on', 'msdm.core.mdp.policy.Policy.calc_returns',
             'msdm.core.mdp.policy.Policy.action', 'msdm.core.mdp.policy.FunctionalPolicy.action_dist', 'msdm.core.mdp.policy.Step.__getattr__',
             'msdm.core.mdp.policy.SimulationResult.reward', 'msdm.core.mdp.policy.SimulationResult.state', 'msdm.core.mdp.policy.SimulationResult.action',
             'msdm.core.mdp.policy.SimulationResult.next_state', 'msdm.core.mdp.policy.SimulationResult.__getitem__',
             'msdm.core.pomdp.policy.POMDPPolicy.run_on']
ASSUMPTIONS = [
    'demonic generator: every sampled history (all seeds / generators) of the stated length bound is explored',
    'tier B: MDP / POMDP skeleton families, step caps 0..3 (quick) / 0..4 (thorough), simulation counts 1..2; rewards symbolic (identified as terms), '
    'policy probabilities: every support pattern with zero entries',
    'floats are mathematical reals',
]
LEMMAS = []
NOT_DECIDED = ['statistical convergence of the estimates', 'roll-outs longer than the step-cap bound (the loop is executed natively, not cut)']
EXPLANATION = 'C14: Policy.run_on / POMDPPolicy.run_on validity under a demonic generator, calc_returns recursion, evaluate_on averages of its own roll-outs.'


@contextlib.contextmanager
def facades(uses, *extra):
    trip = Tripwire('random', uses)
    if not S.symbolic():
        with patched((pol, dict(random=trip)), (ppol, dict(random=trip)), (dd, dict(random=trip)), (dct, dict(random=trip))):
            yield
        return
    with M.facades(*extra), patched((pol, dict(random=trip)), (ppol, dict(random=trip)), (dd, dict(random=trip)), (dct, dict(random=trip))):
        yield


def make_policy(sk, mode, seed):
    """state -> DictDistribution over LISTED actions with zero entries outside the chosen support"""
    rnd = _random.Random('c14pol/%s/%s/%s' % (sk.name, mode, seed))
    table = {}
    for s in sk.states:
        acts = list(sk.actions.get(s, ()))
        if not acts:
            table[s] = {}
            continue
        if mode in ('full', 'full-tab'):
            sup = acts
        elif mode == 'first':
            sup = acts[:1]
        else:
            sup = rnd.sample(acts, rnd.randint(1, len(acts)))
        ps = M._generic_simplex(rnd, len(sup)) if len(sup) > 1 else [1.0]
        d = {a: 0.0 for a in acts}
        d.update(dict(zip(sup, ps)))
        table[s] = d
    if mode.endswith('-tab'):
        # the same policy as a TABLE: action_dist(s) is a row view of a probability table (its own distribution class), reversed action order
        import msdm.core.mdp.tabularpolicy as tpm
        al = list(reversed(sk.action_list))
        data = [[table[s].get(a, 0.0) if table[s] else (1.0 if a == al[0] else 0.0) for a in al] for s in sk.states]
        arr = sym_array(data) if S.symbolic() else np.array(data, dtype=float)
        return tpm.TabularPolicy.from_state_action_lists(state_list=tuple(sk.states), action_list=tuple(al), data=arr), table
    return pol.FunctionalPolicy(lambda s: DictDistribution(table[s])), table


def valid_clauses(sk, v, table, res, init, cap, prefix):
    steps = list(res.steps)
    ok = []
    ok.append(S.truth(len(steps) >= 1 and set(steps[-1].keys()) == {'state'}))
    body = steps[:-1]
    start = body[0]['state'] if body else steps[-1]['state']
    ok.append(S.truth(start == init if init is not None else start in sk.init))
    for t, st in enumerate(body):
        s, a, ns = st['state'], st['action'], st['next_state']
        ok.append(S.truth(st['timestep'] == t))
        ok.append(S.truth(s not in sk.absorbing))
        good_a = a in table.get(s, {}) and not _is0(table[s][a])
        ok.append(S.truth(good_a))
        good_n = (s, a) in sk.supp and ns in sk.supp[(s, a)]
        ok.append(S.truth(good_n))
        if good_a and good_n:
            ok.append(S.eq(st['reward'], v.R[(s, a, ns)]))
        nxt = body[t + 1]['state'] if t + 1 < len(body) else steps[-1]['state']
        ok.append(S.truth(nxt == ns))
    end = steps[-1]['state']
    ok.append(S.truth(len(body) <= cap))
    ok.append(S.truth((end in sk.absorbing) or len(body) == cap))
    return {prefix + ':valid-trajectory(start,policy-support,real-transitions,model-reward,chaining,stops-at-first-absorbing-or-cap)': S.And(ok)}


def _is0(x):
    if isinstance(x, S.SymReal):
        c = S.concrete_value(x)
        return c is not None and c == 0
    return float(x) == 0.0


def h_run_on(sk, pmode, init_mode, cap, seed):
    mdp, v = M.make_mdp(sk, numeric='generic', nseed=seed)
    uses = []
    with facades(uses):
        policy, table = make_policy(sk, pmode, seed)
        from symrun.rngf import DrawBudgetExceeded
        rng = DemonicRng('rng', max_draws=2 * cap + 1, strict=True)      # a roll-out capped at `cap` steps draws the start state and two values per step, no more
        init = None if init_mode == 'sampled' else sk.states[init_mode % len(sk.states)]
        try:
            res = policy.run_on(mdp, initial_state=init, max_steps=cap, rng=rng)
        except DrawBudgetExceeded as e:
            S.check('run_on:never-takes-more-steps-than-the-cap(0-is-a-cap)', S.false(), detail=str(e))
            return
        S.check('run_on:never-takes-more-steps-than-the-cap(0-is-a-cap)', S.truth(len(res.steps) - 1 <= cap))
        for n_, c in valid_clauses(sk, v, table, res, init, cap, 'run_on').items():
            S.check(n_, c)
        S.check('run_on:draws-only-from-the-supplied-generator', S.truth(not uses), detail=repr(uses))
        steps = list(res.steps)
        body = steps[:-1]
        S.check('SimulationResult:accessors-list-the-steps', S.And(
            [S.truth(res.state == [st['state'] for st in steps]), S.truth(res.action == [st['action'] for st in body] + [None]),
             S.truth(res.next_state == [st['next_state'] for st in body] + [None]), S.truth(len(res) == len(steps)),
             S.truth(res[0] is steps[0] and res[:, 'state'] == [st['state'] for st in steps])] +
            [S.eq(a, b) for a, b in zip(res.reward, [st['reward'] for st in body] + [0])] + [S.truth(len(res.reward) == len(steps))]))
        S.check('Step:missing-attribute-reads-as-None', S.truth(steps[-1].action is None and steps[-1].reward is None))


def h_calc_returns(n, gamma='sym'):
    rs = [S.real('r_%d' % i) for i in range(n)]
    g = S.real('gamma', 0, 1, lo_strict=True) if gamma == 'sym' else gamma      # also the end points 0.0 and 1.0 exactly (0.0 ** negative overflows inside)
    uses = []
    with facades(uses):
        rets = pol.Policy.calc_returns(rs, g)
    ok = [S.truth(len(rets) == n)]
    G = 0
    spec = [None] * n
    for t in reversed(range(n)):
        G = rs[t] + g * G
        spec[t] = G
    ok += [S.eq(rets[t], spec[t]) for t in range(n)]
    S.check('calc_returns:backward-recursion-G_t=r_t+gamma*G_{t+1}', S.And(ok))
    if n >= 2 and gamma == 'sym':
        S.check('mustfail:returns-undiscounted', S.eq(rets[0], S.Sum(rs)))


def h_evaluate_on(sk, pmode, nsim, cap, seed, gamma='sym'):
    mdp, v = M.make_mdp(sk, numeric='generic', nseed=seed, **({} if gamma == 'sym' else dict(gamma=gamma)))     # 'one': the discount is exactly 1.0 (special-cased code paths)
    uses = []
    recorded = []
    with facades(uses):
        policy, table = make_policy(sk, pmode, seed)
        rng = DemonicRng('rng')
        orig = pol.Policy.run_on

        def spy(self, *a, **k):
            r = orig(self, *a, **k)
            recorded.append(r)
            return r
        with patched((pol.Policy, {})):
            pol.Policy.run_on = spy
            try:
                ev = policy.evaluate_on(mdp, n_simulations=nsim, max_steps=cap, rng=rng)
            finally:
                pol.Policy.run_on = orig
        S.check('evaluate_on:runs-exactly-n_simulations-roll-outs', S.truth(len(recorded) == nsim))
        g = v.gamma
        sv, av, occ = {}, {}, {}
        firsts = []
        for res in recorded:
            for n_, c in valid_clauses(sk, v, table, res, None, cap, 'evaluate_on:roll-out').items():
                S.check(n_, c)
            steps = list(res.steps)
            rews = [st['reward'] for st in steps[:-1]] + [0]
            G = 0
            rets = [None] * len(rews)
            for t in reversed(range(len(rews))):
                G = rews[t] + g * G
                rets[t] = G
            firsts.append(rets[0])
            for t, st in enumerate(steps):
                s, a = st['state'], st.get('action', None)
                sv.setdefault(s, []).append(rets[t])
                av.setdefault(s, {}).setdefault(a, []).append(rets[t])
        ok = [S.eq(ev.initial_value, S.Sum(firsts) / len(firsts)), S.truth(ev.n_simulations == nsim)]
        ok.append(S.truth(set(ev.state_value.keys()) == set(sv)))
        for s, xs in sv.items():
            ok.append(S.eq(ev.state_value[s], S.Sum(xs) / len(xs)))
            ok.append(S.eq(ev.state_occupancy[s], S.const(Fraction(len(xs), nsim))))
            for a, ys in av[s].items():
                if a is None:
                    continue
                ok.append(S.eq(ev.action_value[s][a], S.Sum(ys) / len(ys)))
        S.check('evaluate_on:reports-the-averages-of-its-own-roll-outs(initial,state,action,visit-frequency)', S.And(ok))
        S.check('evaluate_on:draws-only-from-the-supplied-generator', S.truth(not uses), detail=repr(uses))


def h_pomdp_run_on(sk, kind, cap, given_state, given_ag, seed):
    pomdp, v = P.make_pomdp(sk, numeric='generic', nseed=seed)
    uses = []
    with facades(uses, *P.facade_modules()):
        sl, al, ol = list(pomdp.state_list), list(pomdp.action_list), list(pomdp.observation_list)
        rnd = _random.Random('c14pp/%s/%s' % (sk.name, seed))
        if kind == 'belief':
            pref = {a: rnd.random() for a in al}

            class Pol(ppol.ValueBasedTabularPOMDPPolicy):
                def action_value(self, b, a):
                    return 1 if a == al[-1] else (1 if len(al) > 1 and a == al[0] else 0)
            policy = Pol(pomdp)
            support_of = lambda ag: [a for a in al if a == al[-1] or (len(al) > 1 and a == al[0])]
            ag0 = Belief(tuple(sl), tuple([1.0] + [0.0] * (len(sl) - 1))) if given_ag else None
        else:
            from msdm.core.pomdp.finitestatecontroller import FiniteStateController
            nn = 2
            act = [al[i % len(al)] for i in range(nn)]
            obs_tr = np.array([[[(n + ai + oi) % nn for oi in range(len(ol))] for ai in range(len(al))] for n in range(nn)])

            class FSC(ppol.POMDPPolicy):
                def initial_agentstate(self): return 1
                def action_dist(self, ag): return DictDistribution({act[ag]: 1.0})
                def next_agentstate(self, ag, a, o): return int(obs_tr[ag, al.index(a), ol.index(o)])
            policy = FSC()
            support_of = lambda ag: [act[ag]]
            ag0 = 0 if given_ag else None      # a falsy, non-default node id
        init = sl[0] if given_state else None
        rng = DemonicRng('rng')
        traj = policy.run_on(pomdp, initial_state=init, initial_agentstate=ag0, max_steps=cap, rng=rng)
        ok = []
        last = traj[-1]
        ok.append(S.truth(last.action is None and last.nextstate is None and last.reward is None and last.observation is None and last.nextagentstate is None))
        body = traj[:-1]
        start = traj[0].state
        ok.append(S.truth(start == init if given_state else start in sk.m.init))
        exp_ag0 = ag0 if given_ag else policy.initial_agentstate()
        ok.append(S.truth(_ag_eq(traj[0].agentstate, exp_ag0)))
        for t, st in enumerate(body):
            s, ag, a, ns, r, o, nag = st
            ok.append(S.truth(s not in sk.m.absorbing))
            ok.append(S.truth(a in support_of(ag)))
            good = (s, a) in sk.m.supp and ns in sk.m.supp[(s, a)]
            ok.append(S.truth(good))
            if good:
                ok.append(S.eq(r, v.R[(s, a, ns)]))
            ok.append(S.truth(o in sk.obs_supp.get((a, ns), ())))
            ok.append(S.truth(_ag_eq(nag, policy.next_agentstate(ag, a, o))))
            ok.append(S.truth(traj[t + 1].state == ns and _ag_eq(traj[t + 1].agentstate, nag)))
        ok.append(S.truth(len(body) <= cap and ((last.state in sk.m.absorbing) or len(body) == cap)))
        S.check('POMDPPolicy.run_on:valid-trajectory(start,agent-states,policy-support,transitions,observations,reward,stop)', S.And(ok))
        S.check('POMDPPolicy.run_on:draws-only-from-the-supplied-generator', S.truth(not uses), detail=repr(uses))


def _ag_eq(a, b):
    if isinstance(a, tuple) and isinstance(b, tuple) and hasattr(a, 'probs'):
        return tuple(a.states) == tuple(b.states) and all(_num_eq(x, y) for x, y in zip(a.probs, b.probs))
    return a == b


def _num_eq(x, y):
    r = (x == y)
    return bool(r)


def rt_long_returns(seed, n):
    """R: calc_returns on LONG reward sequences with small discounts (discount ** -t overflows to inf below the diagonal) and at discount 0: every entry is
    the backward recursion G_t = r_t + gamma * G_{t+1}, none is nan"""
    import random, warnings
    rnd = random.Random('long/%s' % seed)
    out = []
    for k in range(n):
        g = [0.0, 0.1, 0.5, 0.9, 1.0][k % 5]
        T_ = rnd.choice([1, 2, 7, 330, 1100]) if k >= 5 else [330, 330, 1100, 40, 40][k]
        rs = [rnd.choice([-2., -1., 0., .5, 3.]) for _ in range(T_)]
        with warnings.catch_warnings():
            warnings.simplefilter('ignore')
            rets = pol.Policy.calc_returns(rs, g)
        G, want = 0.0, [0.0] * T_
        for t in reversed(range(T_)):
            G = rs[t] + g * G
            want[t] = G
        ok = len(rets) == T_ and all((x == x) and abs(x - y) <= 1e-9 * (1 + abs(y)) for x, y in zip(rets, want))
        out.append(dict(name='rt:calc_returns:long-sequences-and-end-point-discounts:backward-recursion,no-nan', ok=bool(ok), witness=dict(gamma=g, length=T_, first=repr(list(rets[:3])), want=repr(want[:3]))))
    return out


def rt_deterministic(seed, n):
    """R: for deterministic policies on deterministic MDPs the simulation-based evaluation equals the exact evaluation truncated at the cap"""
    import random
    from msdm.core.mdp import QuickTabularMDP
    rnd = random.Random(seed)
    out = []
    for k in range(n):
        ns = rnd.randint(2, 5)
        nxt = {(s, a): rnd.randrange(ns) for s in range(ns) for a in (0, 1)}
        rew = {(s, a): rnd.choice([-2., -1., 0., 1., 3.]) for s in range(ns) for a in (0, 1)}
        goal = ns - 1
        g = rnd.choice([0.5, 0.9, 1.0])
        m = QuickTabularMDP(next_state=lambda s, a: nxt[(s, a)], reward=lambda s, a, n: rew[(s, a)], actions=(0, 1), initial_state=0,
                            is_absorbing=lambda s: s == goal, discount_rate=g)
        choice = {s: rnd.choice([0, 1]) for s in range(ns)}
        p = pol.FunctionalPolicy(lambda s: DictDistribution({choice[s]: 1.0}))
        cap = rnd.randint(0, 6)
        st0 = random.getstate()
        ev = p.evaluate_on(m, n_simulations=rnd.randint(1, 3), max_steps=cap, rng=random.Random(k))
        same_state = random.getstate() == st0
        s, G, disc = 0, 0.0, 1.0
        for t in range(cap):
            if s == goal:
                break
            a = choice[s]
            G += disc * rew[(s, a)]
            disc *= g
            s = nxt[(s, a)]
        out.append(dict(name='rt:evaluate_on:deterministic-case-equals-exact-evaluation-truncated-at-the-cap', ok=abs(ev.initial_value - G) < 1e-9,
                        witness=dict(nxt=repr(nxt), rew=repr(rew), choice=repr(choice), cap=cap, gamma=g, got=float(ev.initial_value), want=G)))
        # per-visit returns: every roll-out is the same trajectory, so the reported value of a state is the mean reward-to-go over its visits
        traj, s = [], 0
        for t in range(cap):
            if s == goal:
                break
            traj.append((s, choice[s], rew[(s, choice[s])]))
            s = nxt[(s, choice[s])]
        togo, acc = [0.0] * (len(traj) + 1), 0.0
        for t in reversed(range(len(traj))):
            acc = traj[t][2] + g * acc
            togo[t] = acc
        visits = {}
        for t, (s_, a_, r_) in enumerate(traj):
            visits.setdefault(s_, []).append(togo[t])
        visits.setdefault(s, []).append(0.0)          # the final bare step
        okv = set(ev.state_value.keys()) == set(visits) and all(abs(ev.state_value[x] - sum(y) / len(y)) < 1e-9 for x, y in visits.items())
        oka = all(abs(ev.action_value[s_][a_] - sum(tg for tg, (s2, a2, _) in zip(togo, traj) if (s2, a2) == (s_, a_)) /
                      max(1, sum(1 for (s2, a2, _) in traj if (s2, a2) == (s_, a_)))) < 1e-9 for (s_, a_, _) in traj)
        out.append(dict(name='rt:evaluate_on:deterministic-case:state-and-action-values-are-mean-rewards-to-go-over-the-visits', ok=bool(okv and oka),
                        witness=dict(nxt=repr(nxt), rew=repr(rew), choice=repr(choice), cap=cap, gamma=g, got=repr(dict(ev.state_value)), want=repr(visits))))
        out.append(dict(name='rt:evaluate_on:global-generator-untouched', ok=same_state, witness=dict(k=k)))
    return out


def tasks(tier, seed):
    T = []
    caps = [0, 1, 2, 3] + ([4] if tier == 'thorough' else [])
    fam = M.family_basic(tier, seed)
    for sk in fam:
        for pm in ('full', 'first', 'rand', 'full-tab'):
            for im in (['sampled', 0, 1] if len(sk.states) > 1 else ['sampled', 0]):
                for cap in caps:
                    if tier == 'quick' and pm in ('rand', 'full-tab') and cap not in (0, 3):
                        continue
                    T.append(Task('run_on/%s/%s/init-%s/cap%d' % (sk.name, pm, im, cap), h_run_on, (sk, pm, im, cap, seed), tier='B', max_paths=4000))
        for nsim in (1, 2):
            for cap in (1, 2):
                T.append(Task('evaluate_on/%s/full/n%d/cap%d' % (sk.name, nsim, cap), h_evaluate_on, (sk, 'full', nsim, cap, seed), tier='B', max_paths=4000))
        T.append(Task('evaluate_on/%s/full/n1/cap3/undiscounted' % sk.name, h_evaluate_on, (sk, 'full', 1, 3, seed, 'one'), tier='B', max_paths=4000))
    for n in ([0, 1, 2, 3, 5] + ([8] if tier == 'thorough' else [])):
        T.append(Task('calc_returns/n%d' % n, h_calc_returns, (n,), tier='B', expect_fail=('mustfail:returns-undiscounted',) if n >= 2 else ()))
        if n in (2, 3):
            for gv in (0.0, 1.0):
                T.append(Task('calc_returns/n%d/gamma=%s' % (n, gv), h_calc_returns, (n, gv), tier='B', note='discount at an end point'))
    for sk in P.family(tier, seed):
        for kind in ('belief', 'fsc'):
            for cap in ([0, 1, 2] if tier == 'quick' else [0, 1, 2, 3]):
                for gs in (False, True):
                    for ga in (False, True):
                        T.append(Task('pomdp_run_on/%s/%s/cap%d/state-%s/ag-%s' % (sk.name, kind, cap, 'given' if gs else 'sampled', 'given' if ga else 'default'),
                                      h_pomdp_run_on, (sk, kind, cap, gs, ga, seed), tier='B', max_paths=4000))
    for given in (True, False):
        T.append(Task('U/run_on/abstract-mdp-and-policy/%s' % ('start-given' if given else 'start-sampled'), h_run_on_U, (given,), tier='U',
                      note='uninterpreted MDP / policy, symbolic atoms, symbolic step cap, loop cut: unbounded'))
    for gs in (True, False):
        for ga in (True, False):
            T.append(Task('U/pomdp_run_on/abstract/%s/%s' % ('state-given' if gs else 'state-sampled', 'ag-given' if ga else 'ag-default'), h_pomdp_run_on_U, (gs, ga), tier='U',
                          note='uninterpreted POMDP / policy, symbolic atoms, symbolic step cap, loop cut: unbounded'))
    T.append(Task('rt/long-returns', rt_long_returns, (seed, 10 if tier == 'quick' else 40), tier='R', kind='rt'))
    T.append(Task('rt/deterministic-equals-exact', rt_deterministic, (seed, 60 if tier == 'quick' else 500), tier='R', kind='rt'))
    return T


MANIFEST_ENTRY = dict(
    category='other',
    text=('Contracts on Policy.run_on, POMDPPolicy.run_on (valid trajectory, stop rule, agent-state update, frame: only the supplied generator), '
          'calc_returns (defining recursion, all rewards and discounts) and evaluate_on (exactly the averages of its own roll-outs). The real loops '
          'run under a demonic generator, so every sampled history up to the stated step cap is explored and each clause proved by z3.'),
    note='Bounded: skeleton families, step caps <=3/4, simulation counts <=2 (tier B); sampling laws not decided. Tier U: Policy.run_on and POMDPPolicy.run_on with a symbolic step cap over an abstract model.',
)
END_MANIFEST_ENTRY = True


# ---------------------------------------------------------------------------------------------------
# tier U: Policy.run_on for an ABSTRACT MDP and policy, unbounded number of steps (loop 0 cut by an inductive invariant)
# ---------------------------------------------------------------------------------------------------
def h_run_on_U(init_given):
    """MDP and policy are uninterpreted: Abs(s), Supp(s,a,ns) [positive transition probability], Rw(s,a,ns), Pi(s,a) [positive policy probability], Init(s);
    states/actions are atoms with symbolic identity; max_steps is a symbolic integer >= 0.  Invariant (ghost k = completed iterations, the trajectory is
    abstracted as `prefix ++ [last step]`, the prefix is ghost): k = 0 and s is the start state, or the last step is a valid step numbered k-1 that ends in s.
    Every appended step is shown valid and chained, the loop stops exactly at the first absorbing state or at the cap; validity of ALL steps follows by induction."""
    import z3
    from symrun.absx import Atom, fresh_atom, Opaque
    from symrun.cut import cut, CutSpec
    I, B, Rl = z3.IntSort(), z3.BoolSort(), z3.RealSort()
    Abs, Supp, Rw, Pi, Init = (z3.Function('Abs', I, B), z3.Function('Supp', I, I, I, B), z3.Function('Rw', I, I, I, Rl), z3.Function('Pi', I, I, B), z3.Function('Init', I, B))
    N = S.integer('max_steps', 0, None)
    uses = []

    class Sampler:
        def __init__(self, pred, base):
            self.pred, self.base = pred, base

        def sample(self, *, rng=None, k=1):
            # checked AT the draw: paths through the arbitrary loop iteration end at the back edge and never reach the post-condition
            S.check('U:run_on:every-draw-uses-the-supplied-generator', S.truth(rng is the_rng), detail='%s sampled without the supplied generator' % self.base)
            if rng is not the_rng:
                uses.append('sample without the supplied generator')
            x = fresh_atom(self.base)
            S.assume(S.SymBool(self.pred(x.e)))
            return x

    class MDP:
        discount_rate = 1.0
        def is_absorbing(self, s): return S.SymBool(Abs(s.e))
        def next_state_dist(self, s, a): return Sampler(lambda n: Supp(s.e, a.e, n), 'ns')
        def reward(self, s, a, ns): return S.SymReal(Rw(s.e, a.e, ns.e))
        def initial_state_dist(self): return Sampler(lambda n: Init(n), 's0')

    class Pol(pol.Policy):
        def action_dist(self, s): return Sampler(lambda a: Pi(s.e, a), 'a')
    the_rng = object()
    start = fresh_atom('start') if init_given else None
    ghost = {}
    state = {'phase': 'head'}

    def valid(st, number):
        s_, a_, n_ = st['state'], st['action'], st['next_state']
        return S.And([S.eq(st['timestep'], number), S.Not(S.SymBool(Abs(s_.e))), S.SymBool(Pi(s_.e, a_.e)), S.SymBool(Supp(s_.e, a_.e, n_.e)),
                      S.eq(st['reward'], S.SymReal(Rw(s_.e, a_.e, n_.e)))])

    def inv(L):
        traj, s = L['traj'], L['s']
        if state['phase'] == 'back':
            k = ghost['k']
            return S.And([S.truth(len(traj) == ghost['len'] + 1), valid(traj[-1], k), S.SymBool(traj[-1]['state'].e == ghost['s_before'].e),
                          S.SymBool(traj[-1]['next_state'].e == s.e)])
        if 'k' not in ghost:      # initial entry
            return S.And([S.truth(traj == []), S.truth(s is L['initial_state'])])
        k = ghost['k']
        if ghost['empty']:
            return S.And([S.eq(k, 0), S.truth(traj == []), S.truth(s is L['initial_state'])])
        return S.And([S.le(1, k), S.truth(len(traj) == 1), valid(traj[0], k - 1), S.SymBool(traj[0]['next_state'].e == s.e)])

    def havoc(L):
        k = S.integer('ghost_k', 0, None)
        ghost['k'] = k
        ghost['empty'] = bool(k == 0)        # forks: no step yet / at least one step
        if ghost['empty']:
            return dict(traj=[], s=L['initial_state'], t=None, a=None, ns=None, r=None)
        sp, ap, s_ = fresh_atom('prev_s'), fresh_atom('prev_a'), fresh_atom('cur_s')
        last = pol.Step(timestep=k - 1, state=sp, action=ap, next_state=s_, reward=S.SymReal(Rw(sp.e, ap.e, s_.e)))
        return dict(traj=[last], s=s_, t=k - 1, a=None, ns=None, r=None)

    def element(L, it):
        S.assume(S.lt(ghost['k'], N))
        ghost['len'] = len(L['traj'])
        ghost['s_before'] = L['s']
        state['phase'] = 'back'
        return ghost['k']
    spec = CutSpec(inv=inv, havoc=havoc, element=element, exhausted=lambda L: S.eq(ghost['k'], N), iter_src='range(max_steps)')
    import os
    from symrun.driver import ROOT
    f, text, info = cut(pol.Policy.run_on, {0: spec}, dump_dir=os.path.join(ROOT, 'evidence', 'extracted'))
    mdp_, policy = MDP(), Pol()
    res = f(policy, mdp_, initial_state=start, max_steps=N, rng=the_rng)
    steps = res.steps
    final = steps[-1]
    ok = [S.truth(set(final.keys()) == {'state'})]
    if state['phase'] == 'back':
        # left by `break` inside the arbitrary iteration: the state it started from is absorbing, nothing was appended
        ok.append(S.truth(len(steps) == ghost['len'] + 1))
        ok.append(S.SymBool(Abs(final['state'].e)))
        ok.append(S.SymBool(final['state'].e == ghost['s_before'].e))
    else:
        # the cap was reached: k == max_steps
        ok.append(S.eq(ghost['k'], N))
    if len(steps) >= 2:
        ok.append(S.SymBool(steps[-2]['next_state'].e == final['state'].e))     # chained to the final bare step
    else:
        ok.append(S.truth(final['state'] is (start if init_given else final['state'])))
        if not init_given:
            ok.append(S.SymBool(Init(final['state'].e)))
    S.check('U:run_on:stops-exactly-at-the-first-absorbing-state-or-at-the-cap;final-bare-step-chained', S.And(ok))
    S.check('U:run_on:every-draw-uses-the-supplied-generator', S.truth(not uses), detail=repr(uses))


SENTINELS = [
    Sentinel('run_on-does-not-stop-at-absorbing-states', 'msdm.core.mdp.policy', "            if mdp.is_absorbing(s):\n                break\n            a = self.action_dist(s).sample(rng=rng)",
             "            if False:\n                break\n            a = self.action_dist(s).sample(rng=rng)", ['U/run_on/abstract-mdp-and-policy/start-given']),
    Sentinel('run_on-misnumbers-steps', 'msdm.core.mdp.policy', "                timestep=t,\n                state=s,", "                timestep=t + 1,\n                state=s,",
             ['U/run_on/abstract-mdp-and-policy/start-given']),
    Sentinel('run_on-does-not-advance-the-state', 'msdm.core.mdp.policy', "                reward=r\n            ))\n            s = ns\n        traj.append(Step(\n            state=s,",
             "                reward=r\n            ))\n            s = s\n        traj.append(Step(\n            state=s,", ['U/run_on/abstract-mdp-and-policy/start-sampled']),
    Sentinel('run_on-action-sampled-from-the-global-generator', 'msdm.core.mdp.policy', "            a = self.action_dist(s).sample(rng=rng)\n            ns = mdp.next_state_dist(s, a).sample(rng=rng)\n            r = mdp.reward(s, a, ns)\n            traj.append(Step(",
             "            a = self.action_dist(s).sample()\n            ns = mdp.next_state_dist(s, a).sample(rng=rng)\n            r = mdp.reward(s, a, ns)\n            traj.append(Step(",
             ['U/run_on/abstract-mdp-and-policy/start-given']),
]


def h_pomdp_run_on_U(state_given, ag_given):
    """POMDPPolicy.run_on for an abstract POMDP / policy with a symbolic step cap (loop 0 cut): every appended step is a real transition with a positive-probability
    observation, the model's reward, the policy's own agent-state update, chained; stops at the first absorbing state or at the cap."""
    import z3, os
    from symrun.absx import Atom, fresh_atom
    from symrun.cut import cut, CutSpec
    from symrun.driver import ROOT
    I, B, Rl = z3.IntSort(), z3.BoolSort(), z3.RealSort()
    Abs, Supp, Rw, Init = z3.Function('Abs', I, B), z3.Function('Supp', I, I, I, B), z3.Function('Rw', I, I, I, Rl), z3.Function('Init', I, B)
    Obs, Pi, Nx, Ag0 = z3.Function('Obs', I, I, I, B), z3.Function('PiAg', I, I, B), z3.Function('NextAg', I, I, I, I), z3.Int('Ag0')
    N = S.integer('max_steps', 0, None)
    uses = []
    the_rng = object()

    class Sampler:
        def __init__(self, pred, base):
            self.pred, self.base = pred, base

        def sample(self, *, rng=None, k=1):
            S.check('U:POMDPPolicy.run_on:every-draw-uses-the-supplied-generator', S.truth(rng is the_rng), detail='%s sampled without the supplied generator' % self.base)
            if rng is not the_rng:
                uses.append('%s sampled without the supplied generator' % self.base)
            x = fresh_atom(self.base)
            S.assume(S.SymBool(self.pred(x.e)))
            return x

    class POMDP:
        def is_absorbing(self, s): return S.SymBool(Abs(s.e))
        def next_state_dist(self, s, a): return Sampler(lambda n: Supp(s.e, a.e, n), 'ns')
        def reward(self, s, a, ns): return S.SymReal(Rw(s.e, a.e, ns.e))
        def initial_state_dist(self): return Sampler(lambda n: Init(n), 's0')
        def observation_dist(self, a, ns): return Sampler(lambda o: Obs(a.e, ns.e, o), 'obs')

    class Pol(ppol.POMDPPolicy):
        def initial_agentstate(self): return Atom(Ag0)
        def action_dist(self, ag): return Sampler(lambda a: Pi(ag.e, a), 'a')
        def next_agentstate(self, ag, a, o): return Atom(Nx(ag.e, a.e, o.e))
    start = fresh_atom('start') if state_given else None
    ag_start = fresh_atom('ag_start') if ag_given else None
    ghost = {}
    state = {'phase': 'head'}

    def valid(st):
        s_, ag_, a_, n_, r_, o_, nag_ = st
        return S.And([S.Not(S.SymBool(Abs(s_.e))), S.SymBool(Pi(ag_.e, a_.e)), S.SymBool(Supp(s_.e, a_.e, n_.e)), S.eq(r_, S.SymReal(Rw(s_.e, a_.e, n_.e))),
                      S.SymBool(Obs(a_.e, n_.e, o_.e)), S.SymBool(nag_.e == Nx(ag_.e, a_.e, o_.e))])

    def inv(L):
        traj, s, ag = L['traj'], L['s'], L['ag']
        if state['phase'] == 'back':
            last = traj[-1]
            return S.And([S.truth(len(traj) == ghost['len'] + 1), valid(last), S.SymBool(last.state.e == ghost['s_before'].e), S.SymBool(last.agentstate.e == ghost['ag_before'].e),
                          S.SymBool(last.nextstate.e == s.e), S.SymBool(last.nextagentstate.e == ag.e)])
        if 'k' not in ghost:
            return S.And([S.truth(traj == []), S.truth(s is L['initial_state'] and ag is L['initial_agentstate'])])
        if ghost['empty']:
            return S.And([S.eq(ghost['k'], 0), S.truth(traj == [] and s is L['initial_state'] and ag is L['initial_agentstate'])])
        return S.And([S.le(1, ghost['k']), S.truth(len(traj) == 1), valid(traj[0]), S.SymBool(traj[0].nextstate.e == s.e), S.SymBool(traj[0].nextagentstate.e == ag.e)])

    def havoc(L):
        k = S.integer('ghost_k', 0, None)
        ghost['k'] = k
        ghost['empty'] = bool(k == 0)
        if ghost['empty']:
            return dict(traj=[], s=L['initial_state'], ag=L['initial_agentstate'], t=None, a=None, ns=None, r=None, o=None, nag=None)
        sp, agp, ap, s_, o_ = fresh_atom('prev_s'), fresh_atom('prev_ag'), fresh_atom('prev_a'), fresh_atom('cur_s'), fresh_atom('prev_o')
        nag_ = Atom(Nx(agp.e, ap.e, o_.e))
        last = ppol.Step(sp, agp, ap, s_, S.SymReal(Rw(sp.e, ap.e, s_.e)), o_, nag_)
        return dict(traj=[last], s=s_, ag=nag_, t=k - 1, a=None, ns=None, r=None, o=None, nag=None)

    def element(L, it):
        S.assume(S.lt(ghost['k'], N))
        ghost['len'] = len(L['traj'])
        ghost['s_before'], ghost['ag_before'] = L['s'], L['ag']
        state['phase'] = 'back'
        return ghost['k']
    spec = CutSpec(inv=inv, havoc=havoc, element=element, exhausted=lambda L: S.eq(ghost['k'], N), iter_src='range(max_steps)')
    f, text, info = cut(ppol.POMDPPolicy.run_on, {0: spec}, dump_dir=os.path.join(ROOT, 'evidence', 'extracted'))
    policy = Pol()
    traj = f(policy, POMDP(), initial_state=start, initial_agentstate=ag_start, max_steps=N, rng=the_rng)
    final = traj[-1]
    ok = [S.truth(final.action is None and final.nextstate is None and final.reward is None and final.observation is None and final.nextagentstate is None)]
    if state['phase'] == 'back':
        ok += [S.truth(len(traj) == ghost['len'] + 1), S.SymBool(Abs(final.state.e)), S.SymBool(final.state.e == ghost['s_before'].e), S.SymBool(final.agentstate.e == ghost['ag_before'].e)]
    else:
        ok.append(S.eq(ghost['k'], N))
    if len(traj) >= 2:
        ok += [S.SymBool(traj[-2].nextstate.e == final.state.e), S.SymBool(traj[-2].nextagentstate.e == final.agentstate.e)]
    else:
        if state_given:
            ok.append(S.truth(final.state is start))
        else:
            ok.append(S.SymBool(Init(final.state.e)))
        ok.append(S.truth(final.agentstate is ag_start) if ag_given else S.SymBool(final.agentstate.e == Ag0))
    S.check('U:POMDPPolicy.run_on:starts-as-told,stops-exactly-at-the-first-absorbing-state-or-at-the-cap;final-step-chained', S.And(ok))
    S.check('U:POMDPPolicy.run_on:every-draw-uses-the-supplied-generator', S.truth(not uses), detail=repr(uses))
