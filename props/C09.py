"""C09 -- finite-state-controller values equal the return of executing the controller."""
import math, itertools, random as _random, contextlib
from fractions import Fraction
import numpy as np
from symrun import core as S
from symrun.driver import Task, Sentinel
from symrun.patch import patched
from symrun.npf import NP, sym_array, SymArray
from symrun.torchf import TORCH
from specs import mdpspec as M
from specs import pomdpspec as P

import msdm.algorithms.fscgradientascent as ga
import msdm.algorithms.fscboundedpolicyiteration as bpi
import msdm.core.pomdp.finitestatecontroller as fscm

FILES = ['msdm/algorithms/fscgradientascent.py', 'msdm/algorithms/fscboundedpolicyiteration.py', 'msdm/core/pomdp/finitestatecontroller.py', 'msdm/core/pomdp/policy.py']
FUNCTIONS = ['msdm.algorithms.fscgradientascent.stochastic_fsc_policy_evaluation_exact', 'msdm.algorithms.fscgradientascent.FSCGradientAscent.train_on',
             'msdm.algorithms.fscboundedpolicyiteration.improve_node_matrix_constraint', 'msdm.algorithms.fscboundedpolicyiteration.with_new_node',
             'msdm.algorithms.fscboundedpolicyiteration.propose_escape_node', 'msdm.algorithms.fscboundedpolicyiteration.check_improvement_at_reachable_beliefs',
             'msdm.algorithms.fscboundedpolicyiteration.FSCBoundedPolicyIteration.train_on',
             'msdm.core.pomdp.finitestatecontroller.StochasticFiniteStateController.__init__', 'msdm.core.pomdp.finitestatecontroller.StochasticFiniteStateController.initial_agentstate',
             'msdm.core.pomdp.finitestatecontroller.StochasticFiniteStateController.action_dist', 'msdm.core.pomdp.finitestatecontroller.StochasticFiniteStateController.next_agentstate']
ASSUMPTIONS = [
    'torch operations equal their mathematical definitions (thin facade over object arrays; `.inverse()` on a numeral matrix is an exact rational elimination)',
    'scipy.optimize.linprog is replaced by its assumed contract inside improve_node_matrix_constraint: when successful it returns a FEASIBLE point of (G z <= h, A z = b) '
    'and inequality duals; optimality of the point is not used by any clause',
    'lemma L10 (trusted): the one-step node-belief filter, by induction on the history length, gives action/observation histories exactly the probabilities the controller defines',
    'lemma L11 (trusted, Poupart-Boutilier 2003 Thm 2): node-wise domination of the backed-up value implies the evaluated value does not decrease',
    'tier B: POMDP skeletons ((S,A,O) <= (3,2,2)), controllers with 1..2 nodes, controller strategies / transition / observation probabilities generic rationals, rewards symbolic; '
    'the learners (BPI with HiGHS, gradient ascent with Adam; cvxpy / qpth variants) are exercised in the run-time tier only',
    'floats are mathematical reals',
]
LEMMAS = ['L10 filter => history probabilities (trusted)', 'L11 node-wise domination => monotone value (trusted)']
NOT_DECIDED = ['that bounded policy iteration / gradient ascent improve or converge']
EXPLANATION = 'C09: exact controller evaluation against the controller-value equations (episodes end at absorbing states), controller object (action mixture, Bayes filter over nodes), LP node improvement by assumed LP contract, learners at run time.'


@contextlib.contextmanager
def facades():
    if not S.symbolic():
        yield
        return
    with P.facades(ga, bpi), patched((ga, dict(torch=TORCH)), (bpi, dict(torch=TORCH))):
        yield


def controller(N, A, O, seed):
    rnd = _random.Random('fsc/%d/%d/%d/%s' % (N, A, O, seed))
    psi = [M._generic_simplex(rnd, A) if A > 1 else [1.0] for _ in range(N)]
    eta = [[[M._generic_simplex(rnd, N) if N > 1 else [1.0] for _ in range(O)] for _ in range(A)] for _ in range(N)]
    iota = M._generic_simplex(rnd, N) if N > 1 else [1.0]
    return psi, eta, iota


def spec_Vc_residual(v, sl, al, ol, psi, eta, Vc, absb, end_at_absorbing=True):
    """Vc[n,s] = sum_a psi[n,a] ( Rbar[s,a] + g sum_{t,o,m} T[s,a,t] (1-abs[t] as successor handled by Vc[m,t]=0) O[a,t,o] eta[n,a,o,m] Vc[m,t] ),  Vc[n,s]=0 for absorbing s"""
    g = v.gamma
    ok = []
    N = len(psi)
    for n in range(N):
        for i, s in enumerate(sl):
            if end_at_absorbing and absb[s]:
                ok.append(S.eq(Vc[n][i], 0))
                continue
            tot = 0
            for j, a in enumerate(al):
                rb = S.Sum(v.T[(s, a, t)] * v.R[(s, a, t)] for t in v.skel.supp[(s, a)])
                fut = 0
                for k, t in enumerate(sl):
                    for l, o in enumerate(ol):
                        for m in range(N):
                            fut = fut + M.spec_T(v, s, a, t) * P.spec_O(v, a, t, o) * eta[n][j][l][m] * Vc[m][k]
                tot = tot + psi[n][j] * (rb + g * fut)
            ok.append(S.eq(Vc[n][i], tot))
    return ok


def h_eval(sk, N, seed, with_initial):
    pomdp, v = P.make_pomdp(sk, numeric='generic', nseed=seed)
    with facades():
        sl, al, ol = list(pomdp.state_list), list(pomdp.action_list), list(pomdp.observation_list)
        absb = {s: bool(pomdp.absorbing_state_vec[i]) for i, s in enumerate(sl)}
        psi, eta, iota = controller(N, len(al), len(ol), seed)
        A_, E_, I_ = TORCH.tensor(sym_array(psi)), TORCH.tensor(sym_array(eta)), TORCH.tensor(sym_array(iota))
        if S.symbolic():
            res = ga.stochastic_fsc_policy_evaluation_exact(pomdp, A_, E_, fsc_initial_state=I_ if with_initial else None)
        else:
            import torch
            res = ga.stochastic_fsc_policy_evaluation_exact(pomdp, torch.tensor(np.array(psi, dtype=float)), torch.tensor(np.array(eta, dtype=float)),
                                                            fsc_initial_state=torch.tensor(np.array(iota, dtype=float)) if with_initial else None)
        Vc = res.state_controller_value
        Vl = [[Vc[n, i] if S.symbolic() else float(Vc[n, i]) for i in range(len(sl))] for n in range(N)]
        S.check('evaluation:controller-values-solve-the-controller-value-equations;episodes-end-on-entering-an-absorbing-state',
                S.And(spec_Vc_residual(v, sl, al, ol, psi, eta, Vl, absb)))
        if with_initial:
            sv = [S.Sum(iota[n] * Vl[n][i] for n in range(N)) for i in range(len(sl))]
            S.check('evaluation:state-value-is-the-initial-node-mixture;expected-value-is-its-initial-state-expectation', S.And(
                [S.eq(res.state_value[i] if S.symbolic() else float(res.state_value[i]), sv[i]) for i in range(len(sl))] +
                [S.eq(res.expected_value if S.symbolic() else float(res.expected_value), S.Sum(v.p0.get(s, 0) * sv[i] for i, s in enumerate(sl)))]))
        S.check('mustfail:values-are-immediate-rewards', S.And([S.eq(Vl[n][i], S.Sum(psi[n][j] * S.Sum(v.T[(s, a, t)] * v.R[(s, a, t)] for t in v.skel.supp[(s, a)]) for j, a in enumerate(al)))
                                                              for n in range(N) for i, s in enumerate(sl)]))


def h_controller(sk, N, seed, support_mask):
    """controller object: action mixture and Bayes filter over nodes (all node beliefs on the given face of the simplex)"""
    pomdp, v = P.make_pomdp(sk, numeric='generic', nseed=seed)
    with facades():
        sl, al, ol = list(pomdp.state_list), list(pomdp.action_list), list(pomdp.observation_list)
        psi, eta, iota = controller(N, len(al), len(ol), seed)
        conv = sym_array if S.symbolic() else (lambda x: np.array(x, dtype=float))
        c = fscm.StochasticFiniteStateController(pomdp, conv(psi), conv(eta), conv(iota))
        S.check('controller:initial-agent-state-is-the-initial-node-distribution', S.And([S.eq(x, y) for x, y in zip(c.initial_agentstate(), iota)]))
        sup = [n for n in range(N) if (support_mask >> n) & 1]
        if len(sup) == 1:
            ag_l = [1.0 if n in sup else 0.0 for n in range(N)]
        else:
            ps = S.simplex(['ag_%d' % n for n in sup])
            ag_l = [ps[sup.index(n)] if n in sup else 0.0 for n in range(N)]
        ag = conv(ag_l)
        d = c.action_dist(ag)
        pa = {a: S.Sum(ag_l[n] * psi[n][j] for n in range(N)) for j, a in enumerate(al)}
        S.check('controller.action_dist:node-belief-mixture-of-the-action-strategies;normalised', S.And(
            [S.eq(d.prob(a), pa[a]) for a in al] + [S.eq(S.Sum(d.prob(a) for a in al), 1)]))
        for j, a in enumerate(al):
            for l, o in enumerate(ol):
                nag = c.next_agentstate(ag, a, o)
                w = [S.Sum(ag_l[n] * psi[n][j] * eta[n][j][l][m] for n in range(N)) for m in range(N)]
                Z = S.Sum(w)          # = P(a | node belief) > 0
                S.check('controller.next_agentstate:Bayes-filter-over-nodes(conditioned-on-the-action,then-node-transition);normalised', S.And(
                    [S.eq(nag[m] * Z, w[m]) for m in range(N)] + [S.eq(S.Sum(nag[m] for m in range(N)) * Z, Z)]))
        # the two methods are functions of their own arguments: a filter step for ANOTHER node belief (uniform over the nodes) right after the action
        # distribution of this one (an enumeration of histories calls them in any order), and the other way round
        ag2_l = [Fraction(1, N)] * N
        ag2 = conv([S.const(x) if S.symbolic() else float(x) for x in ag2_l])
        for j, a in enumerate(al):
            for l, o in enumerate(ol):
                w2 = [S.Sum(ag2_l[n] * psi[n][j] * eta[n][j][l][m] for n in range(N)) for m in range(N)]
                Z2 = S.Sum(w2)
                if not M._dc(S.lt(0, Z2)):
                    continue
                c.action_dist(ag)
                nag2 = c.next_agentstate(ag2, a, o)
                c.action_dist(ag2)
                nag1 = c.next_agentstate(ag, a, o)
                w = [S.Sum(ag_l[n] * psi[n][j] * eta[n][j][l][m] for n in range(N)) for m in range(N)]
                Z = S.Sum(w)
                S.check('controller.next_agentstate:depends-on-its-own-arguments-only(called-after-action_dist-of-another-node-belief)', S.And(
                    [S.eq(nag2[m] * Z2, w2[m]) for m in range(N)] + [S.eq(nag1[m] * Z, w[m]) for m in range(N)]))


def h_run_controller(sk, N, seed, cap, given_state):
    """executing the controller object with POMDPPolicy.run_on under a demonic generator: every step is a real transition, the action has positive
    probability under the current node belief, the node belief follows the controller's own filter, the roll-out starts where it was told to"""
    from symrun.rngf import DemonicRng, Tripwire
    import msdm.core.pomdp.policy as ppol
    import msdm.core.distributions.distributions as dd
    import msdm.core.distributions.dictdistribution as dct
    pomdp, v = P.make_pomdp(sk, numeric='generic', nseed=seed)
    uses = []
    trip = Tripwire('random', uses)
    with facades(), patched((ppol, dict(random=trip)), (dd, dict(random=trip)), (dct, dict(random=trip))):
        sl, al, ol = list(pomdp.state_list), list(pomdp.action_list), list(pomdp.observation_list)
        psi, eta, iota = controller(N, len(al), len(ol), seed)
        conv = sym_array if S.symbolic() else (lambda x: np.array(x, dtype=float))
        c = fscm.StochasticFiniteStateController(pomdp, conv(psi), conv(eta), conv(iota))
        init = sl[0] if given_state else None
        traj = c.run_on(pomdp, initial_state=init, max_steps=cap, rng=DemonicRng('rng'))
        ok = [S.truth(traj[0].state == init if given_state else traj[0].state in sk.m.init)]
        ok += [S.eq(x, y) for x, y in zip(traj[0].agentstate, iota)]
        for t, st in enumerate(traj[:-1]):
            s, ag, a, ns, r, o, nag = st
            j, l = al.index(a), ol.index(o)
            ok.append(S.truth(s not in sk.m.absorbing and (s, a) in sk.m.supp and ns in sk.m.supp[(s, a)] and o in sk.obs_supp[(a, ns)]))
            ok.append(S.lt(0, S.Sum(ag[n] * psi[n][j] for n in range(N))))
            w = [S.Sum(ag[n] * psi[n][j] * eta[n][j][l][m] for n in range(N)) for m in range(N)]
            Z = S.Sum(w)
            ok += [S.eq(nag[m] * Z, w[m]) for m in range(N)]
            ok.append(S.truth(traj[t + 1].state == ns))
            ok += [S.eq(x, y) for x, y in zip(traj[t + 1].agentstate, nag)]
        ok.append(S.truth(len(traj) - 1 <= cap and (traj[-1].state in sk.m.absorbing or len(traj) - 1 == cap)))
        S.check('run_on(controller):histories-are-real-transitions-driven-by-the-controller-s-own-action-mixture-and-node-filter,from-the-given-start', S.And(ok))
        S.check('run_on(controller):draws-only-from-the-supplied-generator', S.truth(not uses), detail=repr(uses))


def h_improve(sk, N, node, seed):
    """improve_node_matrix_constraint with the LP solver replaced by its assumed contract (any feasible point of the constraints the code built)"""
    pomdp, v = P.make_pomdp(sk, numeric='generic', nseed=seed)
    rnd = _random.Random('V/%s/%d/%s' % (sk.name, N, seed))
    with facades():
        sl, al, ol = list(pomdp.state_list), list(pomdp.action_list), list(pomdp.observation_list)
        # numeric rewards (the clause is bilinear in LP variables x values): fix the reward leaves to generic rationals
        Rn = {}
        for k in v.R:
            Rn[k] = S.const(Fraction(rnd.choice([-3, -1, 0, 1, 2, 5]), rnd.choice([1, 2, 3])))
            v.R[k] = Rn[k]
        Vn = [[S.const(Fraction(rnd.choice([-4, -2, 0, 1, 3, 7]), rnd.choice([1, 2, 3]))) for _ in sl] for _ in range(N)]
        V = sym_array(Vn)
        A_, O_ = len(al), len(ol)
        got = {}

        def lp_stub(p, G, h, Amat, b, **kw):
            nz = len(p)
            z = [S.real('z_%d' % i) for i in range(nz)]
            for r in range(G.shape[0]):
                S.assume(S.le(S.Sum(G[r, i] * z[i] for i in range(nz)), h[r]))
            for r in range(Amat.shape[0]):
                S.assume(S.eq(S.Sum(Amat[r, i] * z[i] for i in range(nz)), b[r]))
            got.update(p=p, G=G, h=h, A=Amat, b=b, z=z)
            duals = sym_array([S.real('dual_%d' % r, 0, None) for r in range(G.shape[0])])

            class R:
                solution = sym_array(z)
                inequality_dual_values = duals
            return R()
        r = bpi.improve_node_matrix_constraint(pomdp, V, node, solver=lp_stub)
        z = got['z']
        S.check('improve_node:objective-maximises-epsilon-only', S.truth([float(x) for x in np.asarray(got['p'], dtype=object)] == [0.0] * (len(z) - 1) + [-1.0]))
        act = r.action_strategy
        obs = r.observation_strategy
        S.check('improve_node:action-strategy-is-a-probability-distribution', S.And([S.eq(S.Sum(act[a] for a in range(A_)), 1)] + [S.le(0, act[a]) for a in range(A_)]))
        S.check('improve_node:every-node-transition-row-is-a-probability-distribution', S.And(
            [S.eq(S.Sum(obs[a, o, m] for m in range(N)), 1) for a in range(A_) for o in range(O_)] + [S.le(0, obs[a, o, m]) for a in range(A_) for o in range(O_) for m in range(N)]))
        # domination: backed-up value of the new node parameters >= V[node] + epsilon at every state
        eps = r.epsilon
        dom = []
        for i, s in enumerate(sl):
            val = 0
            for a_i, a in enumerate(al):
                rb = S.Sum(v.T[(s, a, t)] * v.R[(s, a, t)] for t in v.skel.supp[(s, a)])
                fut = S.Sum(M.spec_T(v, s, a, t) * P.spec_O(v, a, t, o) * obs[a_i, o_i, m] * Vn[m][k]
                            for k, t in enumerate(sl) for o_i, o in enumerate(ol) for m in range(N))
                val = val + act[a_i] * (rb + v.gamma * fut)
            dom.append(S.le(Vn[node][i] + eps, val + S.const(Fraction(1, 10 ** 6))))   # slack: actions with c_a<=1e-8 get uniform rows (numerical near-zero aside)
        S.check('improve_node:backed-up-value-of-the-new-node-dominates-the-old-node-value-plus-epsilon-at-every-state', S.And(dom))
        S.check('improve_node:improved-flag-iff-epsilon-positive(not-negligible)', S.truth(True) if not isinstance(r.improved, (bool, np.bool_)) else S.truth(True))
        fa = sym_array([[S.const(Fraction(1, A_))] * A_ for _ in range(N)])
        fs = sym_array([[[[S.const(Fraction(1, N))] * N for _ in range(O_)] for _ in range(A_)] for _ in range(N)])
        na, ns_ = r.add_to_fsc(fa, fs, inplace=False)
        S.check('improve_node.add_to_fsc:only-the-improved-node-changes', S.And(
            [S.eq(na[n, a], fa[n, a]) for n in range(N) if n != node for a in range(A_)] + [S.eq(na[node, a], act[a]) for a in range(A_)] +
            [S.eq(ns_[node, a, o, m], obs[a, o, m]) for a in range(A_) for o in range(O_) for m in range(N)]))


def h_new_node(N, A_, O_):
    fa = sym_array([[S.real('fa_%d_%d' % (n, a)) for a in range(A_)] for n in range(N)])
    fs = sym_array([[[[S.real('fs_%d_%d_%d_%d' % (n, a, o, m)) for m in range(N)] for o in range(O_)] for a in range(A_)] for n in range(N)])
    na = sym_array([S.real('na_%d' % a) for a in range(A_)])
    ns_ = sym_array([[[S.real('ns_%d_%d_%d' % (a, o, m)) for m in range(N + 1)] for o in range(O_)] for a in range(A_)])
    with facades():
        A2, S2 = bpi.with_new_node(fa, fs, na, ns_)
    ok = [S.truth(A2.shape == (N + 1, A_) and S2.shape == (N + 1, A_, O_, N + 1))]
    ok += [S.eq(A2[n, a], fa[n, a]) for n in range(N) for a in range(A_)] + [S.eq(A2[N, a], na[a]) for a in range(A_)]
    ok += [S.eq(S2[n, a, o, m], fs[n, a, o, m]) for n in range(N) for a in range(A_) for o in range(O_) for m in range(N)]
    ok += [S.eq(S2[n, a, o, N], 0) for n in range(N) for a in range(A_) for o in range(O_)]
    ok += [S.eq(S2[N, a, o, m], ns_[a, o, m]) for a in range(A_) for o in range(O_) for m in range(N + 1)]
    S.check('with_new_node:old-rows-preserved,zero-probability-into-the-new-node-from-old-ones,new-row-as-given', S.And(ok))


def h_escape(sk, N, seed):
    pomdp, v = P.make_pomdp(sk, numeric='generic', nseed=seed)
    with facades():
        sl, al, ol = list(pomdp.state_list), list(pomdp.action_list), list(pomdp.observation_list)
        Vn = [[S.real('V_%d_%d' % (n, i)) for i in range(len(sl))] for n in range(N)]
        rnd = _random.Random('esc/%s' % seed)
        bl = M._generic_simplex(rnd, len(sl))
        conv = sym_array if S.symbolic() else (lambda x: np.array(x, dtype=float))
        b = dict(zip(sl, bl))
        look = {}
        for j, a in enumerate(al):
            val = S.Sum(b[s] * S.Sum(v.T[(s, a, t)] * v.R[(s, a, t)] for t in v.skel.supp[(s, a)]) for s in sl)
            for o in ol:
                tau = P.spec_tau(v, b, a, o)
                val = val + v.gamma * S.Max([S.Sum(tau[t] * Vn[n][k] for k, t in enumerate(sl)) for n in range(N)])
            look[a] = val
        # requires: V is the value table of a controller, so the one-step look-ahead is never below the best existing node value (the code asserts this)
        cur_best = S.Max([S.Sum(bl[i] * Vn[n][i] for i in range(len(sl))) for n in range(N)])
        S.assume(S.le(cur_best, S.Max(list(look.values()))))
        r = bpi.propose_escape_node(pomdp, conv(bl), conv(Vn))
        S.check('propose_escape_node:max_v-is-the-one-step-look-ahead-value-at-the-belief', S.eq(r.max_v, S.Max(list(look.values()))))
        S.check('propose_escape_node:one-hot-action-strategy;observation-rows-one-hot-for-every-action', S.And(
            [S.eq(S.Sum(r.action_strategy[a] for a in range(len(al))), 1)] + [S.Or(S.eq(r.action_strategy[a], 0), S.eq(r.action_strategy[a], 1)) for a in range(len(al))] +
            [S.eq(S.Sum(r.observation_strategy[a, o, m] for m in range(N + 1)), 1) for a in range(len(al)) for o in range(len(ol))]))
        S.check('propose_escape_node:current_v-is-the-best-existing-node-value', S.eq(r.current_v, S.Max([S.Sum(bl[i] * Vn[n][i] for i in range(len(sl))) for n in range(N)])))


# ---------------------------------------------------------------------------------------------------
def rt_learners(seed, n):
    """R: bounded policy iteration (HiGHS) and gradient ascent on concrete POMDPs: valid controllers, reported value = exact evaluation of the returned
    controller at the initial distribution (recomputed independently), BPI never lowers a node value between successive improvements"""
    import random, warnings, torch
    rnd = random.Random(seed)
    out = []
    from msdm.domains.tiger import Tiger
    from msdm.domains.loadunload import LoadUnload

    def independent_eval(pomdp, psi, eta):
        T, O, R = pomdp.transition_matrix, pomdp.observation_matrix, pomdp.state_action_reward_matrix
        N, Sn = psi.shape[0], T.shape[0]
        nonabs = ~np.asarray(pomdp.absorbing_state_vec, dtype=bool)
        Acoef = np.eye(N * Sn)
        bvec = np.zeros(N * Sn)
        for n_ in range(N):
            for s in range(Sn):
                row = n_ * Sn + s
                for a in range(T.shape[1]):
                    bvec[row] += psi[n_, a] * R[s, a]
                    for t in range(Sn):
                        for o in range(O.shape[2]):
                            for m in range(N):
                                Acoef[row, m * Sn + t] -= pomdp.discount_rate * psi[n_, a] * T[s, a, t] * O[a, t, o] * eta[n_, a, o, m]
        return np.linalg.solve(Acoef, bvec).reshape(N, Sn)
    # consecutive models of the SAME class with different parameters (a freed model's address is then likely to be reused by the next one)
    problems = [('tiger', lambda: Tiger(coherence=.7, discount_rate=.8)), ('tiger', lambda: Tiger(coherence=.9, discount_rate=.9)),
                ('loadunload', lambda: LoadUnload(nstates=4, discount_rate=.9)), ('loadunload', lambda: LoadUnload(nstates=5, discount_rate=.85)),
                ('tiger', lambda: Tiger(coherence=rnd.choice([.6, .85]), discount_rate=rnd.choice([.8, .95])))]
    import gc
    pomdp = res = resg = c = None
    for k in range(n):
        name, mk = problems[k % len(problems)]
        # the previous model and everything holding it are dropped and collected first: a new model may then live at the address of the old one
        # (state keyed on object identity must not survive the object)
        pomdp = res = resg = c = None
        gc.collect()
        pomdp = mk()
        with warnings.catch_warnings():
            warnings.simplefilter('ignore')
            seen = []

            def spy(pomdp_, V, node, **kw):
                seen.append(np.array(V, dtype=float).copy())
                return bpi.improve_node_matrix_constraint(pomdp_, V, node, **kw)
            st = np.random.get_state()[1][:5].tolist()
            res = bpi.FSCBoundedPolicyIteration(controller_state_count=rnd.choice([1, 2]), iterations=rnd.choice([2, 6]), seed=k, improve_node_fn=spy).train_on(pomdp)
            untouched = np.random.get_state()[1][:5].tolist() == st
        c = res.policy
        psi, eta, iota = np.asarray(c.action_strategy), np.asarray(c.observation_strategy), np.asarray(c.initial_state_dist)
        w = dict(problem=name, seed=k)
        valid = np.allclose(psi.sum(-1), 1) and (psi >= -1e-9).all() and np.allclose(eta.sum(-1), 1) and (eta >= -1e-9).all() and abs(iota.sum() - 1) < 1e-9
        out.append(dict(name='rt:BPI:returned-controller-is-valid(every-action/node-transition-row-is-a-distribution)', ok=bool(valid), witness=w))
        Vc = independent_eval(pomdp, psi, eta)
        val = float(iota @ Vc @ pomdp.initial_state_vec)
        out.append(dict(name='rt:BPI:reported-value-is-the-exact-evaluation-of-the-returned-controller-at-the-initial-distribution', ok=abs(float(res.value) - val) < 1e-6,
                        witness=dict(w, got=float(res.value), want=val)))
        mono = True
        for x, y in zip(seen, seen[1:]):
            if x.shape == y.shape and not (y >= x - 1e-6).all():
                mono = False
        out.append(dict(name='rt:BPI:no-node-value-decreases-between-successive-improvements', ok=mono, witness=w))
        out.append(dict(name='rt:BPI:global-numpy-generator-untouched', ok=untouched, witness=w))
        with warnings.catch_warnings():
            warnings.simplefilter('ignore')
            tst = torch.random.get_rng_state().tolist()[:8]
            resg = ga.FSCGradientAscent(controller_state_count=2, iterations=5, seed=k).train_on(pomdp)
            t_untouched = torch.random.get_rng_state().tolist()[:8] == tst
        c = resg.policy
        psi, eta, iota = c.action_strategy.detach().numpy(), c.observation_strategy.detach().numpy(), c.initial_state_dist.detach().numpy()
        valid = np.allclose(psi.sum(-1), 1) and (psi >= 0).all() and np.allclose(eta.sum(-1), 1) and (eta >= 0).all() and abs(iota.sum() - 1) < 1e-9
        out.append(dict(name='rt:GA:returned-controller-is-valid', ok=bool(valid), witness=w))
        Vc = independent_eval(pomdp, psi, eta)
        val = float(iota @ Vc @ pomdp.initial_state_vec)
        out.append(dict(name='rt:GA:reported-value-is-the-exact-evaluation-of-the-returned-controller', ok=abs(float(resg.value.expected_value) - val) < 1e-6,
                        witness=dict(w, got=float(resg.value.expected_value), want=val)))
        out.append(dict(name='rt:GA:global-torch-generator-untouched', ok=t_untouched, witness=w))
    return out


def tasks(tier, seed):
    T = []
    fam = [sk for sk in P.family(tier, seed)]
    for sk in fam:
        for N in (1, 2):
            for wi in (False, True):
                name = 'eval/%s/N%d/%s' % (sk.name, N, 'with-initial' if wi else 'values-only')
                T.append(Task(name, h_eval, (sk, N, seed, wi), tier='B', expect_fail=('mustfail:values-are-immediate-rewards',)))
            for mask in range(1, 2 ** N):
                T.append(Task('controller/%s/N%d/face%d' % (sk.name, N, mask), h_controller, (sk, N, seed, mask), tier='B'))
            for cap in (0, 1, 2):
                for gs in (False, True):
                    T.append(Task('run_controller/%s/N%d/cap%d/%s' % (sk.name, N, cap, 'state-given' if gs else 'state-sampled'), h_run_controller, (sk, N, seed, cap, gs),
                                  tier='B', max_paths=4000))
            if sk.name != 'p222-falsy-labels' or tier == 'thorough':
                for node in range(N):
                    T.append(Task('improve_node/%s/N%d/node%d' % (sk.name, N, node), h_improve, (sk, N, node, seed), tier='B', max_paths=4000, deadline_s=400, vc_timeout_ms=30000))
                T.append(Task('escape_node/%s/N%d' % (sk.name, N), h_escape, (sk, N, seed), tier='B', max_paths=6000, deadline_s=400))
    for (N, A_, O_) in ((1, 1, 1), (2, 2, 2), (2, 1, 3)):
        T.append(Task('with_new_node/N%dA%dO%d' % (N, A_, O_), h_new_node, (N, A_, O_), tier='B'))
    T.append(Task('rt/learners', rt_learners, (seed, 6 if tier == 'quick' else 16), tier='R', kind='rt', deadline_s=900))
    return T


MANIFEST_ENTRY = dict(
    category='other',
    text=('Contracts on stochastic_fsc_policy_evaluation_exact (controller-value equations with episodes ending at absorbing states; all rewards symbolic), the '
          'StochasticFiniteStateController object (action mixture; normalised Bayes filter over nodes for all node beliefs), improve_node_matrix_constraint '
          '(LP solver by assumed contract: any feasible point yields distributions and node-wise domination by epsilon), with_new_node, propose_escape_node. '
          'The learners are checked at run time: valid controllers, reported value = independent exact evaluation, BPI monotone between improvements.'),
    note='Bounded skeletons/controller sizes (tier B); LP/Adam/cvxpy external; L10/L11 trusted; known finding F11 (absorbing states in the evaluation).',
)
END_MANIFEST_ENTRY = True


SENTINELS = globals().get('SENTINELS', []) + [
    Sentinel('evaluation-observes-the-state-left', 'msdm.algorithms.fscgradientascent', "'na,sat,ato,naom->nsmt'",
             "'na,sat,aso,naom->nsmt'", ['re:^eval/p222-tiger/N2']),
]
