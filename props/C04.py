"""C04 -- LRTDP stays an upper bound and ends within the error margin of optimal."""
import math, itertools, random as _random, contextlib
from fractions import Fraction
from symrun import core as S
from symrun.driver import Task, Sentinel
from symrun.patch import patched
from symrun.rngf import DemonicRng, Tripwire
from specs import mdpspec as M
from specs.mdpspec import Skel

import msdm.algorithms.lrtdp as lr
import msdm.core.distributions.distributions as dd
import msdm.core.distributions.dictdistribution as dct

FILES = ['msdm/algorithms/lrtdp.py']
FUNCTIONS = ['msdm.algorithms.lrtdp.LRTDP.' + f for f in ('__init__', 'plan_on', '_set_up_plan_on', '_tear_down_plan_on', 'lrtdp', 'lrtdp_trial', '_check_solved',
                                                          '_bellman_update', 'Q', 'policy')] + ['msdm.core.utils.dictutils.defaultdict2.__getitem__']
ASSUMPTIONS = [
    'tier U (LRTDP.Q): next-state distribution of any support size (index-addressed uninterpreted sequence), uninterpreted absorbing predicate / reward / value table, symbolic discount in (0,1]; recursive ghost sum',
    'tier B: proper (goal-reaching) MDP skeletons: acyclic ones explored exhaustively, a cyclic one up to a generator draw budget; rewards, heuristic slack, '
    'heuristic values at absorbing states and the error margin are symbolic; transition probabilities and the discount generic rationals',
    'demonic generator: every sampled trial history (all seeds) and every action shuffle',
    'heuristic: any h with h(s) >= V*(s) at non-absorbing states (arbitrary at absorbing states); V* is computed in the harness by the Bellman optimality recursion (acyclic) '
    'or constrained by the optimality equations (cyclic)',
    'floats are mathematical reals',
]
LEMMAS = ['for acyclic skeletons no lemma is needed: optimal values, expected step counts and the exact return of the returned policy are computed symbolically bottom-up']
NOT_DECIDED = ['termination on cyclic MDPs beyond the draw budget']
EXPLANATION = 'C04: the whole real LRTDP.plan_on under a demonic generator; upper-bound, margin, policy-return, absorbing-zero, Q-table, convergence-flag and frame clauses.'


def dags(tier):
    F = [
        Skel('d3', [0, 1, 'g'], {0: ('a', 'b'), 1: ('a',), 'g': ('a',)},
             {(0, 'a'): (1, 'g'), (0, 'b'): ('g',), (1, 'a'): ('g',), ('g', 'a'): ('g',)}, absorbing=['g'], init=[0]),
        # initial distribution with mass on an absorbing state that is also reached as a successor
        Skel('d3-absorbing-init', [0, 1, 'g'], {0: ('a',), 1: ('a', 'b'), 'g': ('a',)},
             {(0, 'a'): (1, 'g'), (1, 'a'): ('g',), (1, 'b'): ('g',), ('g', 'a'): ('g',)}, absorbing=['g'], init=['g', 0]),
        Skel('d4-tie', [0, 1, 2, 'g'], {0: ('a', 'b'), 1: ('a',), 2: ('a',), 'g': ('a',)},
             {(0, 'a'): (1,), (0, 'b'): (2,), (1, 'a'): ('g',), (2, 'a'): ('g',), ('g', 'a'): ('g',)}, absorbing=['g'], init=[0]),
    ]
    # a state (1) that a trial may skip but the labelling pass reaches: it is labelled solved without ever being updated, and it has a choice
    # between an absorbing and a non-absorbing successor (the returned policy there is the fallback rule)
    F.append(Skel('d4-fallback', [0, 1, 2, 'g'], {0: ('a',), 1: ('a', 'b'), 2: ('a',), 'g': ('a',)},
                  {(0, 'a'): (1, 'g'), (1, 'a'): ('g',), (1, 'b'): (2,), (2, 'a'): ('g',), ('g', 'a'): ('g',)}, absorbing=['g'], init=[0]))
    # a stochastic action with three not-yet-solved successors: the labelling pass holds several states on its open stack at once, so its verdict must
    # ACCUMULATE over the whole greedy envelope (an inconsistent state popped before a consistent one)
    F.append(Skel('d5-wide', [0, 1, 2, 3, 'g'], {0: ('a',), 1: ('a',), 2: ('a',), 3: ('a',), 'g': ('a',)},
                  {(0, 'a'): (1, 2, 3), (1, 'a'): ('g',), (2, 'a'): ('g',), (3, 'a'): ('g',), ('g', 'a'): ('g',)}, absorbing=['g'], init=[0]))
    F.append(M.relabel_actions(F[0], {'a': 1, 'b': 0}, 'd3-falsy-actions'))      # action 0 is legal, and not first in its state's order
    if tier == 'thorough':
        F.append(Skel('d4-branch', [0, 1, 2, 'g'], {0: ('a', 'b'), 1: ('a', 'b'), 2: ('a',), 'g': ('a',)},
                      {(0, 'a'): (1, 2), (0, 'b'): (2,), (1, 'a'): ('g', 2), (1, 'b'): ('g',), (2, 'a'): ('g',), ('g', 'a'): ('g',)}, absorbing=['g'], init=[0, 1]))
    return F


def topo(sk):
    order, seen = [], set()

    def visit(s):
        if s in seen:
            return
        seen.add(s)
        if s not in sk.absorbing:
            for a in sk.actions.get(s, ()):
                for n in sk.supp[(s, a)]:
                    if n != s:
                        visit(n)
        order.append(s)
    for s in sk.states:
        visit(s)
    return order      # successors first


@contextlib.contextmanager
def facades(uses, budget):
    trip = Tripwire('random', uses, private_budget=budget)
    if not S.symbolic():      # replay: scripted generator from the counterexample model, real arithmetic
        with patched((lr, dict(random=trip)), (dd, dict(random=trip)), (dct, dict(random=trip))):
            yield
        return
    with M.facades(lr), patched((lr, dict(random=trip)), (dd, dict(random=trip)), (dct, dict(random=trip))):
        yield


def h_lrtdp(sk, shuffle, slack_mode, tied, iterations=50, gamma='sym'):
    mdp, v = M.make_mdp(sk, gamma=gamma, numeric='generic', nseed=2)      # gamma='one': discount exactly 1.0 (the skeletons are acyclic)
    g = v.gamma
    if tied:      # exact ties between actions (the interesting case for tie-breaking orders)
        for s in sk.states:
            acts = sk.actions.get(s, ())
            if len(acts) > 1 and all(len(sk.supp[(s, a)]) == 1 for a in acts):
                r0 = v.R[(s, acts[0], sk.supp[(s, acts[0])][0])]
                for a in acts[1:]:
                    v.R[(s, a, sk.supp[(s, a)][0])] = r0
    eps = S.real('eps', 0, None, lo_strict=True)
    # optimal values bottom-up (acyclic)
    W = {}
    for s in topo(sk):
        if s in sk.absorbing:
            W[s] = 0
        else:
            W[s] = S.Max([M.spec_Q(v, s, a, W) for a in sk.actions[s]])
    hval = {}
    for s in sk.states:
        if s in sk.absorbing:
            hval[s] = S.real('h_abs_%s' % (s,))            # whatever the heuristic says about absorbing states
        elif slack_mode == 'exact':
            hval[s] = W[s]
        elif slack_mode == 'constant':
            hval[s] = S.Max([W[x] for x in sk.states]) + 1
        else:
            hval[s] = W[s] + S.real('slack_%s' % (s,), 0, None)
    uses = []
    # the model hands out its action collections as LISTS, one shared list object per distinct action set (as QuickTabularMDP(actions=[...]) does):
    # a planner must not reorder the model's own lists in place
    shared_lists = {}
    base_actions = mdp.actions

    def actions_as_shared_lists(s_):
        t_ = tuple(base_actions(s_))
        return shared_lists.setdefault(t_, list(t_))
    mdp.actions = actions_as_shared_lists
    with facades(uses, 60):
        planner = lr.LRTDP(heuristic=lambda s: hval[s], bellman_error_margin=eps, iterations=iterations, randomize_action_order=shuffle, seed=9)
        res = planner.plan_on(mdp)
        S.check('frame:the-action-lists-handed-out-by-the-model-are-not-reordered-in-place', S.truth(all(tuple(l_) == t_ for t_, l_ in shared_lists.items())))
        # liveness needs a fair generator (a demonic one may never sample some initial state): the flag is checked as a safety property,
        # and on single-start skeletons (no unfair history exists) convergence itself is required
        conv = res.converged
        S.check('LRTDP:convergence-flag-is-reported-and-implies-all-initial-states-labelled-solved', S.truth(
            isinstance(conv, bool) and ((not conv) or all(res.solved[s] for s in sk.init))))
        if len(sk.init) == 1:
            S.check('LRTDP:reports-convergence-with-all-initial-states-labelled-solved', S.truth(conv is True))
        if conv is not True:
            return
        touched = list(res.V.keys())
        S.check('LRTDP:value-estimates-never-fall-below-the-optimal-values', S.And([S.le(W[s], res.V[s]) for s in touched if s not in sk.absorbing]))
        S.check('LRTDP:absorbing-states-are-worth-0-in-the-reported-values', S.And(
            [S.eq(res.V[s], 0) for s in touched if s in sk.absorbing] + [S.eq(q, 0) for s in res.Q if s in sk.absorbing for q in res.Q[s].values()]))
        # returned policy: exact return J and expected number of steps N, bottom-up
        pi = {}
        for s in sk.states:
            if s in sk.absorbing:
                continue
            d = res.policy.action_dist(s)
            pi[s] = {a: d.prob(a) for a in d.support}
        S.check('LRTDP:policy-only-picks-available-actions', S.truth(all(set(pi[s]) <= set(sk.actions[s]) and len(pi[s]) >= 1 for s in pi)))
        J, N = {}, {}
        for s in topo(sk):
            if s in sk.absorbing:
                J[s], N[s] = 0, 0
            else:
                J[s] = S.Sum(p * M.spec_Q(v, s, a, J) for a, p in pi[s].items())
                N[s] = 1 + S.Sum(p * S.Sum(v.T[(s, a, n)] * N[n] for n in sk.supp[(s, a)]) for a, p in pi[s].items())
        ok_m, ok_j = [], []
        for s in sk.init:
            if s in sk.absorbing:
                continue
            ok_m.append(S.le(res.V[s] - W[s], eps * N[s]))
            ok_j.append(S.le(W[s] - J[s], eps * N[s]))
        S.check('LRTDP:initial-state-values-exceed-the-optimum-by-at-most-margin*expected-steps', S.And(ok_m))
        S.check('LRTDP:returned-policy-return-is-within-margin*expected-steps-of-optimal', S.And(ok_j))
        S.check('LRTDP:initial-value-is-the-initial-expectation-with-absorbing-states-at-0', S.eq(
            res.initial_value, S.Sum(v.p0[s] * (0 if s in sk.absorbing else res.V[s]) for s in sk.init)))
        okq = []
        for s in touched:
            if s in sk.absorbing:
                continue
            okq.append(S.truth(set(res.Q[s].keys()) == set(sk.actions[s])))
            for a in sk.actions[s]:
                Vb = {n: (0 if n in sk.absorbing else res.V[n]) for n in sk.supp[(s, a)]}
                okq.append(S.eq(res.Q[s][a], M.spec_Q(v, s, a, Vb)))
        S.check('LRTDP:reported-Q-is-the-lookahead-of-the-reported-values(absorbing-successors-at-0)', S.And(okq))
        S.check('LRTDP:only-the-private-seeded-generator-is-used', S.truth(not [u for u in uses if 'Random' not in u]), detail=repr(uses))


def h_unit(sk):
    """Q / _bellman_update / policy in isolation on an arbitrary value table"""
    mdp, v = M.make_mdp(sk, gamma='sym', numeric='generic', nseed=2)
    hv = {s: S.real('h_%s' % (s,)) for s in sk.states}
    with facades([], 20):
        p = lr.LRTDP(heuristic=lambda s: hv[s], seed=1)
        p._set_up_plan_on()
        from msdm.core.utils.dictutils import defaultdict2
        p.res.V = defaultdict2(lambda s: hv[s])
        p.res.action_orders = dict()
        stored = {s: S.real('V_%s' % (s,)) for s in sk.states[:1]}
        for s, x in stored.items():
            p.res.V[s] = x
        Vbar = lambda n: 0 if n in sk.absorbing else stored.get(n, hv[n])
        ok = []
        for s in sk.states:
            for a in sk.actions.get(s, ()):
                want = 0 if s in sk.absorbing else S.Sum(v.T[(s, a, n)] * (v.R[(s, a, n)] + v.gamma * Vbar(n)) for n in sk.supp[(s, a)])
                ok.append(S.eq(p.Q(mdp, s, a), want))
        S.check('Q:lookahead-with-absorbing-successors-at-0-and-unstored-states-at-the-heuristic;0-at-absorbing-states', S.And(ok))
        keys_before = set(p.res.V.keys())
        S.check('defaultdict2:reading-a-default-does-not-store-it', S.truth(keys_before == set(stored)))
        s0 = [s for s in sk.states if s not in sk.absorbing][-1]
        before = {s: p.res.V[s] for s in sk.states}
        qs = [p.Q(mdp, s0, a) for a in sk.actions[s0]]
        p._bellman_update(mdp, s0)
        S.check('_bellman_update:V[s]=max_a-Q(s,a);nothing-else-changes', S.And(
            [S.eq(p.res.V[s0], S.Max(qs))] + [S.eq(p.res.V[s], before[s]) for s in sk.states if s != s0] + [S.truth(set(p.res.V.keys()) == keys_before | {s0})]))
        a1 = p.policy(mdp, s0)
        order = list(p.res.action_orders[s0])
        S.check('policy:first-maximiser-in-an-order-that-is-a-permutation-of-the-actions-and-then-fixed', S.And(
            [S.truth(sorted(map(str, order)) == sorted(map(str, sk.actions[s0]))), S.truth(p.policy(mdp, s0) == a1 and list(p.res.action_orders[s0]) == order),
             S.eq(p.Q(mdp, s0, a1), S.Max([p.Q(mdp, s0, a) for a in order]))] +
            [S.lt(p.Q(mdp, s0, a), p.Q(mdp, s0, a1)) for a in order[:order.index(a1)]]))


def rt_real(seed, n):
    """R: real seeds on proper MDPs WITH cycles; optimal values by an independent value iteration"""
    import random
    import numpy as np
    from msdm.core.mdp import QuickTabularMDP
    from msdm.core.distributions import DictDistribution
    rnd = random.Random(seed)
    out = []
    for k in range(n):
        Sn = rnd.choice([3, 4, 5])
        acts = {s: tuple(rnd.sample(['u', 'v', 'w'], rnd.choice([1, 2, 3]))) for s in range(Sn)}
        T, R = {}, {}
        for s in range(Sn - 1):
            for a in acts[s]:
                sup = list(dict.fromkeys([rnd.randrange(s + 1, Sn)] + [rnd.randrange(Sn) for _ in range(rnd.choice([0, 1, 2]))]))
                ws = [rnd.choice([1, 2, 3]) for _ in sup]
                T[(s, a)] = {n_: w / sum(ws) for n_, w in zip(sup, ws)}
                for n_ in sup:
                    R[(s, a, n_)] = rnd.choice([-3., -1., -.5, 0., 1.]) if rnd.random() < .8 else rnd.choice([-1., -2.])
        for a in acts[Sn - 1]:
            T[(Sn - 1, a)] = {Sn - 1: 1.}
        g = rnd.choice([.9, .95, 1.0])
        if g == 1.0:
            R = {k_: min(v_, 0.) - .1 for k_, v_ in R.items()}
        p0 = {0: .5, Sn - 1: .25, 1: .25} if rnd.random() < .4 else {0: 1.}
        mdp = QuickTabularMDP(next_state_dist=lambda s, a: DictDistribution(T[(s, a)]), reward=lambda s, a, ns: R.get((s, a, ns), 0.), actions=lambda s: acts[s],
                              initial_state_dist=DictDistribution(p0), is_absorbing=lambda s: s == Sn - 1, discount_rate=g)
        W = [0.] * Sn
        for _ in range(5000):
            W = [0. if s == Sn - 1 else max(sum(p * (R.get((s, a, n_), 0.) + g * W[n_]) for n_, p in T[(s, a)].items()) for a in acts[s]) for s in range(Sn)]
        slack = rnd.choice([0., .5, 3.])
        habs = rnd.choice([0., 50., -7.])
        eps = rnd.choice([1e-2, 1e-4])
        st = random.getstate()
        res = lr.LRTDP(heuristic=lambda s: habs if s == Sn - 1 else W[s] + slack, bellman_error_margin=eps, randomize_action_order=rnd.random() < .5, seed=k).plan_on(mdp)
        w = dict(T=repr(T), R=repr(R), acts=repr(acts), gamma=g, p0=repr(p0), slack=slack, habs=habs, eps=eps, seed=k)
        out.append(dict(name='rt:LRTDP:global-generator-untouched', ok=random.getstate() == st, witness=w))
        out.append(dict(name='rt:LRTDP:converged-and-initial-states-solved', ok=getattr(res, 'converged', None) is True and all(res.solved[s] for s in p0), witness=w))
        out.append(dict(name='rt:LRTDP:upper-bound', ok=all(res.V[s] >= W[s] - 1e-7 for s in res.V.keys() if s != Sn - 1), witness=w))
        # exact evaluation of the returned policy and expected steps
        P = np.zeros((Sn, Sn)); r = np.zeros(Sn)
        for s in range(Sn - 1):
            for a, pa in res.policy.action_dist(s).items():
                for n_, p in T[(s, a)].items():
                    P[s, n_] += pa * p
                    r[s] += pa * p * R.get((s, a, n_), 0.)
        P[Sn - 1, :] = 0
        A = np.eye(Sn) - g * P
        J = np.linalg.solve(A, r)
        N = np.linalg.solve(np.eye(Sn) - P, np.array([1.] * (Sn - 1) + [0.]))
        ok_m = all(res.V[s] - W[s] <= eps * N[s] + 1e-7 for s in p0 if s != Sn - 1)
        ok_j = all(W[s] - J[s] <= eps * N[s] + 1e-7 for s in p0 if s != Sn - 1)
        out.append(dict(name='rt:LRTDP:initial-values-within-margin*expected-steps', ok=ok_m, witness=w))
        out.append(dict(name='rt:LRTDP:policy-return-within-margin*expected-steps', ok=ok_j, witness=dict(w, J=repr(J.tolist()), W=repr(W), N=repr(N.tolist()))))
        iv = sum(p * (0. if s == Sn - 1 else res.V[s]) for s, p in p0.items())
        out.append(dict(name='rt:LRTDP:initial-value-with-absorbing-states-at-0', ok=abs(res.initial_value - iv) < 1e-9, witness=w))
    return out


def tasks(tier, seed):
    T = []
    for sk in dags(tier):
        for shuffle in (False, True):
            for slack in ('exact', 'slack', 'constant'):
                if tier == 'quick' and shuffle and slack == 'constant':
                    continue
                for tied in ((False, True) if sk.name == 'd4-tie' else (False,)):
                    its = 50 if len(sk.init) == 1 else 5
                    T.append(Task('plan_on/%s/%s/%s%s' % (sk.name, 'shuffle' if shuffle else 'ordered', slack, '/tied' if tied else ''), h_lrtdp, (sk, shuffle, slack, tied, its),
                                  tier='B', max_paths=12000, deadline_s=500))
        if sk.name in ('d3', 'd5-wide'):
            T.append(Task('plan_on/%s/ordered/slack/undiscounted' % sk.name, h_lrtdp, (sk, False, 'slack', False, 50, 'one'), tier='B', max_paths=12000, deadline_s=500))
        T.append(Task('units/%s' % sk.name, h_unit, (sk,), tier='B'))
    T.append(Task('U/Q/abstract-next-state-distribution', h_Q_U, (), tier='U', note='unbounded support, uninterpreted model, symbolic discount'))
    T.append(Task('rt/real-seeds-cyclic', rt_real, (seed, 40 if tier == 'quick' else 300), tier='R', kind='rt'))
    from specs import reuse as _reuse
    T.append(Task('rt/object-reuse', _reuse.rt_planner_reuse, ('C04', ['LRTDP'], seed), tier='R', kind='rt', note='planner objects, earlier results and model objects across calls'))
    return T


MANIFEST_ENTRY = dict(
    category='other',
    text=('The whole real LRTDP.plan_on is executed under a demonic generator (all trial histories, all action shuffles) on proper MDP skeletons with '
          'symbolic rewards, symbolic admissible heuristics (arbitrary values at absorbing states) and a symbolic error margin; z3 proves on every path: '
          'convergence flag and labels, upper bound, initial margin <= eps*E[steps], policy return within the same margin (exact return computed '
          'symbolically), absorbing states at 0, Q-table, initial value, frame. Unit contracts for Q, _bellman_update, policy; run-time tier on cyclic MDPs.'),
    note='Bounded: acyclic skeletons (<=4 states) for the symbolic tier, cyclic MDPs only in the run-time tier; termination in general not proved. Tier U: LRTDP.Q over an abstract next-state distribution (any support size).',
)
END_MANIFEST_ENTRY = True


def h_Q_U():
    """LRTDP.Q(s,a) == 0 if s absorbing else sum_i val(i) * (Rw(s,a,key(i)) + gamma * (0 if Abs(key(i)) else Vbar(key(i))))  -- abstract next-state distribution of
    unbounded support, uninterpreted absorbing predicate / reward / value table, symbolic discount (loop 0 cut, recursive ghost sum)"""
    import z3, os
    from symrun.absx import Atom, AbsMap, rsum, fresh_atom, Opaque
    from symrun.cut import cut, CutSpec
    from symrun.driver import ROOT
    I, B, Rl = z3.IntSort(), z3.BoolSort(), z3.RealSort()
    key, val, Abs, Rw, Vb = z3.Function('key', I, I), z3.Function('val', I, Rl), z3.Function('Abs', I, B), z3.Function('Rw', I, I, I, Rl), z3.Function('Vbar', I, Rl)
    n = z3.Int('n')
    S.cur().inputs['n'] = n
    S.assume(S.SymBool(n >= 0))
    g = S.real('gamma', 0, 1, lo_strict=True)
    s, a = fresh_atom('s'), fresh_atom('a')
    term = lambda i: val(i) * (Rw(s.e, a.e, key(i)) + g.e * z3.If(Abs(key(i)), z3.RealVal(0), Vb(key(i))))
    Ssum = rsum('qsum', term)

    class Dist:
        def __init__(self, x, y): self.x, self.y = x, y
        def items(self): return Opaque('items', owner=(self.x, self.y))

    class MDP:
        discount_rate = g
        def is_absorbing(self, x): return S.SymBool(Abs(x.e))
        def next_state_dist(self, x, y): return Dist(x, y)
        def reward(self, x, y, z): return S.SymReal(Rw(x.e, y.e, z.e))

    class Vtab:
        def __getitem__(self, x): return S.SymReal(Vb(x.e))
    planner = lr.LRTDP(heuristic=lambda x: 0)
    planner._set_up_plan_on()
    planner.res.V = Vtab()
    ghost, state = {}, {'phase': 'head'}

    def inv(L):
        if 'kz' not in ghost:
            return S.eq(L['q'], 0)
        kk = ghost['kz'] + (1 if state['phase'] == 'back' else 0)
        return S.eq(L['q'], S.SymReal(Ssum(kk)))

    def havoc(L):
        kz = z3.Int('ghost_k')
        S.cur().inputs['ghost_k'] = kz
        S.assume(S.SymBool(kz >= 0))
        ghost['kz'] = kz
        return dict(q=S.SymReal(Ssum(kz)), ns=None, prob=None, future=None)

    def element(L, it):
        S.assume(S.SymBool(ghost['kz'] < n))
        state['phase'] = 'back'
        return (Atom(key(ghost['kz'])), S.SymReal(val(ghost['kz'])))
    spec = CutSpec(inv=inv, havoc=havoc, element=element, exhausted=lambda L: S.SymBool(ghost['kz'] == n),
                   iterable_ok=lambda L, v: isinstance(v, Opaque) and v.owner[0] is s and v.owner[1] is a)
    fcut, text, info = cut(lr.LRTDP.Q, {0: spec}, dump_dir=os.path.join(ROOT, 'evidence', 'extracted'))
    q = fcut(planner, MDP(), s, a)
    S.check('U:Q:0-at-absorbing-states;else-probability-weighted-lookahead-with-absorbing-successors-at-0(any-support-size)',
            S.eq(q, S.If(S.SymBool(Abs(s.e)), 0, S.SymReal(Ssum(n)))))


SENTINELS = [
    Sentinel('U:Q-uses-the-stored-value-of-absorbing-successors', 'msdm.algorithms.lrtdp', "            if not mdp.is_absorbing(ns):\n                future = self.res.V[ns]",
             "            if True:\n                future = self.res.V[ns]", ['U/Q/abstract-next-state-distribution']),
    Sentinel('U:Q-drops-the-discount', 'msdm.algorithms.lrtdp', "q += prob * (mdp.reward(s, a, ns) + mdp.discount_rate*future)", "q += prob * (mdp.reward(s, a, ns) + future)",
             ['U/Q/abstract-next-state-distribution']),
]
