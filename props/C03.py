"""C03 -- LAO* with an admissible heuristic returns an optimal closed policy."""
import math, itertools, random as _random, contextlib
from fractions import Fraction
import numpy as np
from symrun import core as S
from symrun.driver import Task, Sentinel
from symrun.patch import patched
from symrun.rngf import DemonicRng, Tripwire
from symrun.npf import NP
from specs import mdpspec as M
from specs.mdpspec import Skel

import msdm.algorithms.laostar as lao
import msdm.core.distributions.distributions as dd
import msdm.core.distributions.dictdistribution as dct

FILES = ['msdm/algorithms/laostar.py']
FUNCTIONS = ['msdm.algorithms.laostar.LAOStar.plan_on', 'msdm.algorithms.laostar.LAOStar._run_lao_star', 'msdm.algorithms.laostar.LAOStar._create_policy',
             'msdm.algorithms.laostar.ExplicitStateGraph.__init__', 'msdm.algorithms.laostar.ExplicitStateGraph._initialize_node',
             'msdm.algorithms.laostar.ExplicitStateGraph.expand_at', 'msdm.algorithms.laostar.ExplicitStateGraph.revise_value_from',
             'msdm.algorithms.laostar.ExplicitStateGraph.update_ancestors_of', 'msdm.algorithms.laostar.ExplicitStateGraph.dynamic_programming',
             'msdm.algorithms.laostar.ExplicitStateGraph._policy_iteration', 'msdm.algorithms.laostar.ExplicitStateGraph._state_nodes_to_matrices',
             'msdm.algorithms.laostar.ExplicitStateGraph.initial_value', 'msdm.algorithms.laostar.ExplicitStateGraph.state_value_map',
             'msdm.algorithms.laostar.SolutionGraph.__init__', 'msdm.algorithms.laostar.SolutionGraph.is_solved', 'msdm.algorithms.laostar.SolutionGraph.best_breadth_first_tip_state']
ASSUMPTIONS = [
    'tier B: MDP skeletons (<=4 states + goal; state-dependent action sets, stochastic branching, an absorbing initial state, a cycle); rewards, heuristic slack and '
    'heuristic values at absorbing states symbolic; transition probabilities / discount generic rationals (the inner linear solves are then exact rational eliminations)',
    'demonic generator: every action / next-state / initial-state ordering (all seeds), both ordering flags',
    'np.around(q, 10) is the identity on mathematical reals',
    'optimal values: computed bottom-up (acyclic) or pinned by the Bellman optimality equations as ghost constraints (cyclic, discount < 1: unique solution)',
    'floats are mathematical reals',
]
LEMMAS = ['uniqueness of the solution of the Bellman optimality / expectation equations for discount < 1 (cyclic skeleton only; trusted)']
NOT_DECIDED = ['"reports convergence" as a liveness claim beyond the explored skeletons (iteration caps, the inner assert converged)']
EXPLANATION = 'C03: the whole real LAOStar.plan_on under a demonic generator; optimal initial value, upper bounds, closed policy on available actions, optimal exact return, frame.'


def skeletons(tier):
    F = [
        Skel('l3', [0, 1, 'g'], {0: ('a', 'b'), 1: ('a',), 'g': ('a',)},
             {(0, 'a'): (1, 'g'), (0, 'b'): ('g',), (1, 'a'): ('g',), ('g', 'a'): ('g',)}, absorbing=['g'], init=[0]),
        # state-dependent action sets with different actions in different states, absorbing initial state
        Skel('l4-actions', [0, 1, 2, 'g'], {0: ('a', 'b'), 1: ('c',), 2: ('b', 'c'), 'g': ('a',)},
             {(0, 'a'): (1,), (0, 'b'): (2, 'g'), (1, 'c'): ('g',), (2, 'b'): ('g',), (2, 'c'): (1,), ('g', 'a'): ('g',)}, absorbing=['g'], init=[0, 'g']),
    ]
    # falsy action labels (0, ''): the best action of an explored state may be falsy and need not be first in the node's action order
    F.append(Skel('l3-falsy-actions', [0, 1, 'g'], {0: (1, 0), 1: ('',), 'g': (0,)},
                  {(0, 0): (1, 'g'), (0, 1): ('g',), (1, ''): ('g',), ('g', 0): ('g',)}, absorbing=['g'], init=[0]))
    F.append(Skel('l3-cycle', [0, 1, 'g'], {0: ('a', 'b'), 1: ('a',), 'g': ('a',)},
                  {(0, 'a'): (1, 0), (0, 'b'): ('g',), (1, 'a'): ('g', 0), ('g', 'a'): ('g',)}, absorbing=['g'], init=[0]))
    if tier == 'thorough':
        F.append(Skel('l4-branch', [0, 1, 2, 'g'], {0: ('a', 'b'), 1: ('a', 'b'), 2: ('a',), 'g': ('a',)},
                      {(0, 'a'): (1, 2), (0, 'b'): (2,), (1, 'a'): ('g', 2), (1, 'b'): ('g',), (2, 'a'): ('g',), ('g', 'a'): ('g',)}, absorbing=['g'], init=[0, 1]))
    return F


def is_acyclic(sk):
    color = {}

    def visit(s):
        color[s] = 1
        if s not in sk.absorbing:
            for a in sk.actions.get(s, ()):
                for n in sk.supp[(s, a)]:
                    if color.get(n) == 1:
                        return False
                    if n not in color and not visit(n):
                        return False
        color[s] = 2
        return True
    return all(visit(s) for s in sk.states if s not in color)


def optimal_values(sk, v):
    from props.C04 import topo
    if is_acyclic(sk):
        W = {}
        for s in topo(sk):
            W[s] = 0 if s in sk.absorbing else S.Max([M.spec_Q(v, s, a, W) for a in sk.actions[s]])
        return W
    W = {s: (0 if s in sk.absorbing else S.real('ghost_W_%s' % (s,))) for s in sk.states}
    for s in sk.states:
        if s not in sk.absorbing:
            S.assume(S.eq(W[s], S.Max([M.spec_Q(v, s, a, W) for a in sk.actions[s]])))
    return W


def policy_return(sk, v, pi):
    from props.C04 import topo
    if is_acyclic(sk):
        J = {}
        for s in topo(sk):
            J[s] = 0 if s in sk.absorbing else S.Sum(p * M.spec_Q(v, s, a, J) for a, p in pi[s].items())
        return J
    J = {s: (0 if s in sk.absorbing else S.real('ghost_J_%s' % (s,))) for s in sk.states}
    for s in sk.states:
        if s not in sk.absorbing:
            S.assume(S.eq(J[s], S.Sum(p * M.spec_Q(v, s, a, J) for a, p in pi[s].items())))
    return J


@contextlib.contextmanager
def facades(uses, budget):
    trip = Tripwire('random', uses, private_budget=budget)
    if not S.symbolic():
        with patched((lao, dict(random=trip)), (dd, dict(random=trip)), (dct, dict(random=trip))):
            yield
        return
    with M.facades(lao), patched((lao, dict(random=trip)), (dd, dict(random=trip)), (dct, dict(random=trip))):
        yield


def h_lao(sk, rand_actions, rand_next, slack_mode, gamma='sym'):
    mdp, v = M.make_mdp(sk, gamma=gamma, numeric='generic', nseed=5)      # gamma='one': discount exactly 1.0 (acyclic skeletons only)
    W = optimal_values(sk, v)
    hval = {}
    for s in sk.states:
        if slack_mode == 'exact':
            hval[s] = W[s] if s not in sk.absorbing else 0
        elif slack_mode == 'constant':
            hval[s] = S.Max([W[x] for x in sk.states]) + 1
        else:
            hval[s] = W[s] + S.real('slack_%s' % (s,), 0, None)
    uses = []
    with facades(uses, 80):
        # the model hands out one shared LIST object per distinct action set: a planner must not reorder the model's own lists in place
        shared_lists = {}
        base_actions = mdp.actions

        def actions_as_shared_lists(s_):
            t_ = tuple(base_actions(s_))
            return shared_lists.setdefault(t_, list(t_))
        mdp.actions = actions_as_shared_lists
        planner = lao.LAOStar(heuristic=lambda s: hval[s], randomize_action_order=rand_actions, randomize_nextstate_order=rand_next, seed=13)
        res = planner.plan_on(mdp)
        S.check('frame:the-action-lists-handed-out-by-the-model-are-not-reordered-in-place', S.truth(all(tuple(l_) == t_ for t_, l_ in shared_lists.items())))
        S.check('LAO*:reports-convergence', S.truth(res.converged is True))
        S.check('LAO*:initial-value-is-the-optimal-value-of-the-initial-distribution', S.eq(res.initial_value, S.Sum(v.p0[s] * W[s] for s in sk.init)))
        S.check('LAO*:every-held-value-is-an-upper-bound-on-the-optimal-value', S.And([S.le(W[s], x) for s, x in res.state_value_map.items()]))
        # closure: follow the policy from the initial support
        pi = {}
        reach, stack = set(), list(sk.init)
        okc = []
        while stack:
            s = stack.pop()
            if s in reach:
                continue
            reach.add(s)
            d = res.policy.action_dist(s)
            acts = list(d.support)
            okc.append(S.truth(len(acts) >= 1 and set(acts) <= set(sk.actions.get(s, ()))))
            pi[s] = {a: d.prob(a) for a in acts if a in sk.actions.get(s, ())}
            if s in sk.absorbing:
                continue
            for a in pi[s]:
                stack.extend(sk.supp[(s, a)])
        S.check('LAO*:policy-is-defined-on-every-state-it-reaches-and-only-picks-available-actions', S.And(okc))
        for s in sk.states:
            if s not in pi:
                pi[s] = {sk.actions[s][0]: 1.0} if sk.actions.get(s) else {}
        J = policy_return(sk, v, pi)
        S.check('LAO*:exact-return-of-the-returned-policy-from-the-initial-distribution-is-optimal', S.eq(
            S.Sum(v.p0[s] * J[s] for s in sk.init), S.Sum(v.p0[s] * W[s] for s in sk.init)))
        S.check('LAO*:only-the-private-seeded-generator-is-used', S.truth(not [u for u in uses if 'Random' not in u]), detail=repr(uses))
        S.check('mustfail:initial-value-is-the-heuristic', S.eq(res.initial_value, S.Sum(v.p0[s] * hval[s] for s in sk.init) + 1))


def h_matrices(sk, members):
    """_state_nodes_to_matrices: for every member s, available a and every vector x on the members
       sum_n tf[i,a,n](rf[i,a,n] + g*x[n]) = sum_ns P(ns|s,a)(R + g*val(ns)), val = x on members, 0 on absorbing states, the stored node value elsewhere"""
    mdp, v = M.make_mdp(sk, gamma='sym', numeric='generic', nseed=5)
    g = v.gamma
    hval = {s: S.real('nodeval_%s' % (s,)) for s in sk.states}
    with facades([], 40):
        G = lao.ExplicitStateGraph(mdp=mdp, heuristic=lambda s: hval[s], randomize_action_order=False, randomize_nextstate_order=False, rng=DemonicRng('g'))
        for s in sk.states:
            if s not in G.states_to_nodes:
                G._initialize_node(s)
        nodes = [G.states_to_nodes[s] for s in members]
        actions = list(sk.action_list)
        tf, rf, am = G._state_nodes_to_matrices(nodes, actions)
        x = {s: S.real('x_%s' % (s,)) for s in members}
        n_ = len(members)
        ok, oks = [], []
        for i, s in enumerate(members):
            for j, a in enumerate(actions):
                avail = (a in sk.actions.get(s, ())) or (s in sk.absorbing)
                oks.append(S.eq(am[i, j], 1 if avail else 0))
                if s in sk.absorbing:
                    ok.append(S.eq(S.Sum(tf[i, j, k] * (rf[i, j, k] + g * (x[members[k]] if k < n_ else 0)) for k in range(n_ + 1)), 0))
                    continue
                if not avail:
                    continue
                lhs = S.Sum(tf[i, j, k] * (rf[i, j, k] + g * (x[members[k]] if k < n_ else 0)) for k in range(n_ + 1))
                val = lambda n: x[n] if n in x else (0 if n in sk.absorbing else hval[n])
                rhs = S.Sum(v.T[(s, a, n)] * (v.R[(s, a, n)] + g * val(n)) for n in sk.supp[(s, a)])
                ok.append(S.eq(lhs, rhs))
                oks.append(S.eq(S.Sum(tf[i, j, k] for k in range(n_ + 1)), 1))
        S.check('_state_nodes_to_matrices:sub-MDP-lookahead-equals-the-real-lookahead-with-boundary-values', S.And(ok))
        S.check('_state_nodes_to_matrices:availability-mask-and-row-sums', S.And(oks))


def rt_real(seed, n):
    import random
    from msdm.core.mdp import QuickTabularMDP
    from msdm.core.distributions import DictDistribution
    rnd = random.Random(seed)
    out = []
    for k in range(n):
        Sn = rnd.choice([3, 4, 5])
        acts = {s: tuple(rnd.sample(['u', 'v', 'w'], rnd.choice([1, 2, 3]))) for s in range(Sn)}
        T, R = {}, {}
        for s in range(Sn - 1):
            for a in acts[s]:
                sup = list(dict.fromkeys([rnd.randrange(s + 1, Sn)] + [rnd.randrange(Sn) for _ in range(rnd.choice([0, 1, 2]))]))
                ws = [rnd.choice([1, 2, 3]) for _ in sup]
                T[(s, a)] = {n_: w / sum(ws) for n_, w in zip(sup, ws)}
                for n_ in sup:
                    R[(s, a, n_)] = rnd.choice([-40., -3., -1., -.5, 0., 1.])
        for a in acts[Sn - 1]:
            T[(Sn - 1, a)] = {Sn - 1: 1.}
        g = rnd.choice([.9, .95, 1.0])
        if g == 1.0:
            R = {k_: min(v_, 0.) - .1 for k_, v_ in R.items()}
        p0 = {0: .5, Sn - 1: .25, 1: .25} if rnd.random() < .4 else {0: 1.}
        mdp = QuickTabularMDP(next_state_dist=lambda s, a: DictDistribution(T[(s, a)]), reward=lambda s, a, ns: R.get((s, a, ns), 0.), actions=lambda s: acts[s],
                              initial_state_dist=DictDistribution(p0), is_absorbing=lambda s: s == Sn - 1, discount_rate=g)
        W = [0.] * Sn
        for _ in range(6000):
            W = [0. if s == Sn - 1 else max(sum(p * (R.get((s, a, n_), 0.) + g * W[n_]) for n_, p in T[(s, a)].items()) for a in acts[s]) for s in range(Sn)]
        slack = rnd.choice([0., .5, 30.])
        st = random.getstate()
        res = lao.LAOStar(heuristic=lambda s: 0. if s == Sn - 1 else W[s] + slack, randomize_action_order=rnd.random() < .5,
                          randomize_nextstate_order=rnd.random() < .5, seed=k).plan_on(mdp)
        w = dict(T=repr(T), R=repr(R), acts=repr(acts), gamma=g, p0=repr(p0), slack=slack, seed=k)
        out.append(dict(name='rt:LAO*:global-generator-untouched', ok=random.getstate() == st, witness=w))
        out.append(dict(name='rt:LAO*:converged', ok=res.converged is True, witness=w))
        opt0 = sum(p * W[s] for s, p in p0.items())
        out.append(dict(name='rt:LAO*:initial-value-optimal', ok=abs(res.initial_value - opt0) < 1e-6, witness=dict(w, got=float(res.initial_value), want=opt0)))
        out.append(dict(name='rt:LAO*:upper-bounds', ok=all(x >= W[s] - 1e-6 for s, x in res.state_value_map.items()), witness=w))
        P = np.zeros((Sn, Sn)); r = np.zeros(Sn)
        okact = True
        reach, stack = set(), list(p0)
        while stack:
            s = stack.pop()
            if s in reach or s == Sn - 1:
                continue
            reach.add(s)
            for a, pa in res.policy.action_dist(s).items():
                okact &= a in acts[s]
                for n_, p in T[(s, a)].items():
                    P[s, n_] += pa * p
                    r[s] += pa * p * R.get((s, a, n_), 0.)
                    stack.append(n_)
        for s in range(Sn):
            if s not in reach:
                P[s, :] = 0
        J = np.linalg.solve(np.eye(Sn) - g * P, r)
        out.append(dict(name='rt:LAO*:policy-available-actions', ok=okact, witness=w))
        out.append(dict(name='rt:LAO*:policy-return-optimal', ok=abs(sum(p * J[s] for s, p in p0.items()) - opt0) < 1e-6, witness=dict(w, J=repr(J.tolist()), W=repr(W))))
    return out


def tasks(tier, seed):
    T = []
    for sk in skeletons(tier):
        for ra in (False, True):
            for rn in (False, True):
                for slack in ('exact', 'slack', 'constant'):
                    if tier == 'quick' and (ra and rn) and slack != 'slack':
                        continue
                    if tier == 'quick' and sk.name == 'l3-cycle' and (ra or rn):
                        continue
                    if sk.name == 'l4-actions' and (ra or rn) and (slack != 'exact' if tier == 'quick' else (ra and rn and slack == 'slack')):
                        continue      # orderings x value orderings: path explosion; random orders are covered with the exact heuristic and on l3
                    if sk.name == 'l4-branch' and ra and (rn or slack == 'slack'):
                        continue      # > 15000 paths / 600 s each at thorough depth (random action order x value orderings); covered on the smaller skeletons
                    T.append(Task('plan_on/%s/%s-%s/%s' % (sk.name, 'ra' if ra else 'oa', 'rn' if rn else 'on', slack), h_lao, (sk, ra, rn, slack), tier='B',
                                  max_paths=15000, deadline_s=600, expect_fail=('mustfail:initial-value-is-the-heuristic',)))
        if is_acyclic(sk) and sk.name in ('l3', 'l3-falsy-actions'):
            T.append(Task('plan_on/%s/oa-on/slack/undiscounted' % sk.name, h_lao, (sk, False, False, 'slack', 'one'), tier='B', max_paths=15000, deadline_s=600,
                          expect_fail=('mustfail:initial-value-is-the-heuristic',)))
        sts = list(sk.states)
        for members in ([sts[0]], sts[:2], sts, [s for s in sts if s not in sk.absorbing]):
            T.append(Task('matrices/%s/%s' % (sk.name, '+'.join(map(str, members))), h_matrices, (sk, members), tier='B'))
    T.append(Task('rt/real-seeds', rt_real, (seed, 40 if tier == 'quick' else 300), tier='R', kind='rt'))
    from specs import reuse as _reuse
    T.append(Task('rt/object-reuse', _reuse.rt_planner_reuse, ('C03', ['LAOStar'], seed), tier='R', kind='rt', note='planner objects, earlier results and model objects across calls'))
    return T


MANIFEST_ENTRY = dict(
    category='other',
    text=('The whole real LAOStar.plan_on (explicit graph, solution graph, ancestor revision, inner policy iteration with exact rational solves) is executed '
          'under a demonic generator on MDP skeletons with symbolic rewards and symbolic admissible heuristics; z3 proves on every path: convergence, '
          'initial value = optimal value of the initial distribution, every held value an upper bound, closed policy on available actions, exact return '
          'optimal, frame. Separate contract for _state_nodes_to_matrices (pseudo-terminal re-normalisation identity). Run-time tier on random proper MDPs.'),
    note='Bounded skeleton family (tier B, <=4 states + goal); optimality lemmas not needed on acyclic skeletons, uniqueness of fixed points trusted on the cyclic one.',
)
END_MANIFEST_ENTRY = True


SENTINELS = globals().get('SENTINELS', []) + [
    Sentinel('pseudo-terminal-value-of-absorbing-successors-is-bootstrapped', 'msdm.algorithms.laostar', '                        if self.mdp.is_absorbing(ns):\n                            rf[si, ai, -1] += prob*reward',
             '                        if False:\n                            rf[si, ai, -1] += prob*reward', ['re:^matrices/', 're:^plan_on/l3/oa-on/constant']),
]
